"""Library behind bin/check (python standard library only)."""
import glob
import json
import os
import shutil
import subprocess
import sys
import time
from concurrent.futures import ThreadPoolExecutor

VERIF = os.path.dirname(os.path.dirname(os.path.abspath(__file__)))
HARNESS = os.path.join(VERIF, "harness")
BUILD = os.path.join(VERIF, ".build")
EVIDENCE = os.path.join(VERIF, "evidence")
REPLAYS = os.path.join(VERIF, "replays")
KNOWN_FILE = os.path.join(VERIF, "KNOWN_FINDINGS.txt")
NPROC = min(16, os.cpu_count() or 4)
REPO_TOOLCHAIN = "1.83.0"

BASE_ENV = dict(os.environ)
BASE_ENV["CARGO_NET_OFFLINE"] = "true"
BASE_ENV.pop("RUSTFLAGS", None)


def log(msg):
    print(msg, flush=True)


# --------------------------------------------------------------------------
# builds


def nightly_rustc():
    out = subprocess.run(
        ["rustup", "which", "rustc", "--toolchain", "nightly"],
        capture_output=True, text=True, env=BASE_ENV)
    return out.stdout.strip()


def build(profile):
    """Build the harness for a profile from /repo's current working tree.
    Returns (binary path or None, error text)."""
    target = os.path.join(BUILD, profile)
    env = dict(BASE_ENV)
    env["CARGO_TARGET_DIR"] = target
    cmd = ["cargo", "+" + REPO_TOOLCHAIN, "build", "--offline", "--quiet"]
    sub = "debug"
    if profile == "dbg":
        pass
    elif profile == "rel":
        cmd.append("--release")
        sub = "release"
    elif profile == "asan":
        env["RUSTC"] = nightly_rustc()
        env["RUSTFLAGS"] = "-Zsanitizer=address -Cforce-frame-pointers=yes -Cdebug-assertions=on"
        cmd += ["--target", "x86_64-unknown-linux-gnu"]
        sub = "x86_64-unknown-linux-gnu/debug"
    elif profile == "tsan":
        sysroot, err = tsan_sysroot()
        if sysroot is None:
            return None, err
        env["RUSTC"] = nightly_rustc()
        env.pop("RUSTFLAGS", None)
        env["CARGO_ENCODED_RUSTFLAGS"] = "\x1f".join(
            ["-Zsanitizer=thread", "--sysroot", sysroot, "-Cdebug-assertions=on"])
        cmd += ["--target", "x86_64-unknown-linux-gnu"]
        sub = "x86_64-unknown-linux-gnu/debug"
    elif profile == "miri":
        return build_miri()
    else:
        return None, "unknown profile " + profile
    t0 = time.time()
    p = subprocess.run(cmd, cwd=HARNESS, env=env, capture_output=True, text=True)
    if p.returncode != 0:
        return None, (p.stdout + p.stderr)[-4000:]
    binary = os.path.join(target, sub, "rsv")
    if not os.path.exists(binary):
        return None, "binary missing after build: " + binary
    log(f"[build] profile={profile} ok in {time.time() - t0:.1f}s")
    return binary, ""


TRIPLE = "x86_64-unknown-linux-gnu"


def tsan_sysroot():
    """ThreadSanitizer needs an instrumented std: build one from a
    dependency-free dummy crate with nightly cargo -Zbuild-std and lay it out
    as a sysroot."""
    root = os.path.join(BUILD, "tsan-sysroot")
    libdir = os.path.join(root, "lib", "rustlib", TRIPLE, "lib")
    stamp = os.path.join(root, "ok")
    if os.path.exists(stamp):
        return root, ""
    env = dict(BASE_ENV)
    env["CARGO_TARGET_DIR"] = os.path.join(BUILD, "tsan-std")
    env["RUSTFLAGS"] = "-Zsanitizer=thread"
    p = subprocess.run(["cargo", "+nightly", "build", "-Zbuild-std", "--target", TRIPLE, "--offline", "--quiet"],
                       cwd=os.path.join(VERIF, "tsan-dummy"), env=env, capture_output=True, text=True)
    if p.returncode != 0:
        return None, "tsan std build failed: " + (p.stdout + p.stderr)[-3000:]
    os.makedirs(libdir, exist_ok=True)
    deps = os.path.join(BUILD, "tsan-std", TRIPLE, "debug", "deps")
    for f in os.listdir(deps):
        if f.endswith(".rlib") or f.endswith(".rmeta"):
            shutil.copy(os.path.join(deps, f), libdir)
    nsys = subprocess.run(["rustc", "+nightly", "--print", "sysroot"], capture_output=True, text=True,
                          env=BASE_ENV).stdout.strip()
    rt = os.path.join(nsys, "lib", "rustlib", TRIPLE, "lib", "librustc-nightly_rt.tsan.a")
    if not os.path.exists(rt):
        return None, "tsan runtime not found: " + rt
    shutil.copy(rt, libdir)
    open(stamp, "w").write("ok")
    return root, ""


MIRI_CONFIG = ["--config", 'source.crates-io.replace-with="vendored-sources"',
               "--config", f'source.vendored-sources.directory="{os.path.join(BUILD, "vendor")}"']


def miri_env():
    env = dict(BASE_ENV)
    env["CARGO_TARGET_DIR"] = os.path.join(BUILD, "miri")
    env["MIRIFLAGS"] = "-Zmiri-disable-isolation"
    return env


def miri_prefix():
    return ["cargo", "+nightly", "miri", "run", "--offline", "--quiet"] + MIRI_CONFIG + ["--"]


def build_miri():
    """Miri needs nightly cargo, which cannot see the repository's registry:
    vendor the locked crates with the repository's cargo and point nightly
    cargo at the vendor directory. Returns a command prefix."""
    vendor = os.path.join(BUILD, "vendor")
    if not os.path.exists(os.path.join(vendor, ".ok")):
        p = subprocess.run(["cargo", "+" + REPO_TOOLCHAIN, "vendor", "--offline", "--respect-source-config",
                            "--versioned-dirs", vendor], cwd=HARNESS, env=BASE_ENV, capture_output=True, text=True)
        if p.returncode != 0:
            return None, "cargo vendor failed: " + (p.stdout + p.stderr)[-3000:]
        open(os.path.join(vendor, ".ok"), "w").write("ok")
    t0 = time.time()
    # warm the build (also rebuilds after an edit in /repo)
    p = subprocess.run(miri_prefix() + ["list"], cwd=HARNESS, env=miri_env(), capture_output=True, text=True)
    if p.returncode != 0:
        return None, "miri build failed: " + (p.stdout + p.stderr)[-4000:]
    log(f"[build] profile=miri ok in {time.time() - t0:.1f}s")
    return miri_prefix(), ""


def setup():
    ok = True
    for profile in ("dbg", "rel", "asan", "tsan", "miri"):
        b, err = build(profile)
        if b is None:
            log(f"[setup] build {profile} failed:\n{err}")
            ok = False
    return 0 if ok else 1


# --------------------------------------------------------------------------
# known findings


def load_known(prop):
    known = []
    if not os.path.exists(KNOWN_FILE):
        return known
    for line in open(KNOWN_FILE):
        line = line.strip()
        if not line.startswith("known:"):
            continue
        kv = {}
        text = []
        for tok in line[len("known:"):].split():
            k, _, v = tok.partition("=")
            if k in ("property", "clause", "trigger", "witness") and k not in kv and v:
                kv[k] = v
            else:
                text.append(tok)
        if kv.get("property") == prop:
            kv["text"] = " ".join(text)
            known.append(kv)
    return known


# --------------------------------------------------------------------------
# plans: which stages decide a property

QUICK_BUDGET = 45.0     # seconds per shard; only ends generation early
THOROUGH_BUDGET = 900.0


def stage(profile, worker_prop, scale=1.0, **kw):
    d = {"kind": "worker", "profile": profile, "prop": worker_prop, "scale": scale}
    d.update(kw)
    return d


PLANS = {
}
PLANS["C17"] = [stage("dbg", "C17"), stage("rel", "C17")]
ASAN_ENV = {"ASAN_OPTIONS": "detect_leaks=0:abort_on_error=1:halt_on_error=1:allocator_may_return_null=0:max_allocation_size_mb=4096",
            "RSV_UNSAFE_MODE": "2",
            # the cache-slot peek monitor keeps clones of cached maps alive, which would
            # hide a use after free from the sanitizer: off in sanitizer runs
            "RSV_NO_PEEK": "1"}
TSAN_ENV = {"TSAN_OPTIONS": "halt_on_error=1:exitcode=66:second_deadlock_stack=1"}
PLANS["C18"] = [
    stage("dbg", "C18"),
    stage("tsan", "C18S", env=TSAN_ENV),
    stage("asan", "C18", env=ASAN_ENV, cases={"quick": 800, "thorough": 16000}),
    stage("asan", "C18S", env=ASAN_ENV, cases={"quick": 800, "thorough": 12000}),
    stage("miri", "C18M", cases={"quick": 160, "thorough": 3200}),
]
PLANS["C19"] = [
    stage("dbg", "C19", require_all_unsafe_sites=True),
    stage("asan", "C19", env=ASAN_ENV, cases={"quick": 20000, "thorough": 300000}),
    stage("miri", "C19M"),
    # "concurrent use as in C18": lifetime-extended borrows under schedules
    stage("asan", "C18", env=dict(ASAN_ENV, RSV_MEMORY_ONLY="1"), cases={"quick": 480, "thorough": 8000}),
    stage("asan", "C18S", env=dict(ASAN_ENV, RSV_MEMORY_ONLY="1"), cases={"quick": 480, "thorough": 8000}),
    stage("miri", "C18M", env={"RSV_MEMORY_ONLY": "1"}, cases={"quick": 64, "thorough": 1600}),
]
for _p in ("C01", "C02", "C03", "C04", "C05", "C06", "C07", "C08", "C09", "C10", "C11", "C12", "C13", "C14", "C15", "C16", "C20"):
    PLANS[_p] = [stage("dbg", _p)]

LEVEL_TEXT = {}


def run_worker_stage(binary, st, prop, tier, seed, outdir):
    """Run the sharded workers of one stage; returns list of summaries and
    list of infrastructure errors."""
    os.makedirs(outdir, exist_ok=True)
    budget = QUICK_BUDGET if tier == "quick" else THOROUGH_BUDGET
    nshards = NPROC

    crash_violations = []

    def limits():
        # address-space cap: an allocation blow-up becomes an abort of this
        # worker instead of exhausting the machine
        if st["profile"] not in ("asan", "tsan", "miri"):
            import resource
            cap = int(st.get("mem_gb", 8)) * (1 << 30)
            resource.setrlimit(resource.RLIMIT_AS, (cap, cap))

    def one(i):
        out = os.path.join(outdir, f"{prop}-{st['profile']}-{st['prop']}-{i}.json")
        prog = out + ".progress"
        skip = []
        prefix = binary if isinstance(binary, list) else [binary]
        base = prefix + ["worker", "--prop", st["prop"], "--tier", tier,
                "--seed", str(seed), "--shard", str(i), "--nshards", str(nshards),
                "--replay-dir", REPLAYS, "--known", KNOWN_FILE]
        if "cases" in st:
            base += ["--cases", str(st["cases"][tier])]
        env = miri_env() if st["profile"] == "miri" else dict(BASE_ENV)
        env.update(st.get("env", {}))
        if st["profile"] == "miri":
            # a different scheduler seed per shard and VERIF_SEED: more thread interleavings
            env["MIRIFLAGS"] = env.get("MIRIFLAGS", "") + f" -Zmiri-seed={seed * 100 + i} -Zmiri-preemption-rate=0.05"
            for k in st.get("env", {}):
                env["MIRIFLAGS"] += f" -Zmiri-env-forward={k}"
        cwd = HARNESS if st["profile"] == "miri" else None
        for attempt in range(6):
            for f in (out, prog):
                if os.path.exists(f):
                    os.remove(f)
            cmd = base + ["--budget-secs", str(budget), "--out", out, "--progress", prog]
            if skip:
                cmd += ["--skip", ",".join(map(str, skip))]
            try:
                p = subprocess.run(cmd, capture_output=True, text=True, env=env, cwd=cwd,
                                   timeout=budget * 4 + 600, preexec_fn=limits)
            except subprocess.TimeoutExpired:
                # which case was running?
                idx = open(prog).read().strip() if os.path.exists(prog) else "?"
                return None, f"shard {i}: watchdog timeout while running case {idx} (inconclusive)"
            if p.returncode == 0 and os.path.exists(out):
                try:
                    return json.load(open(out)), None
                except Exception as e:  # noqa: BLE001
                    return None, f"shard {i}: unreadable summary: {e}"
            # the worker died: find the case, confirm it alone, skip it, go on
            if not os.path.exists(prog):
                return None, (f"shard {i}: worker exit {p.returncode} before the first case: "
                              + (p.stderr or p.stdout)[-1500:])
            idx = int(open(prog).read().strip() or "0")
            os.makedirs(REPLAYS, exist_ok=True)
            rp = os.path.join(REPLAYS, f"{prop}-crash-{st['profile']}-s{seed}-{i}-{idx}.json")
            subprocess.run(base + ["--only", str(idx), "--dump", rp], capture_output=True,
                           text=True, env=env, cwd=cwd, timeout=1200)
            if not os.path.exists(rp):
                return None, f"shard {i}: worker died at case {idx} and the case could not be dumped"
            try:
                c = subprocess.run(prefix + ["replay", rp], capture_output=True, text=True, env=env, cwd=cwd,
                                   timeout=1800, preexec_fn=limits)
                died = c.returncode not in (0, 1, 2)
                tail = (c.stderr or "")[-600:]
            except subprocess.TimeoutExpired:
                died, tail = True, "no result within 1800 s when run alone (hang)"
            if died and "C18-SCHEDULER-TIMEOUT" in ((p.stderr or "") + tail) and "C18-DEADLOCK" not in ((p.stderr or "") + tail):
                # a managed thread blocked for real on a lock that no probe announced:
                # the scheduler cannot decide this case (wall-clock watchdog => inconclusive)
                return None, (f"shard {i}: scheduler watchdog fired on case {idx} (a thread blocks on a lock "
                              f"that is not announced by a probe); replay={rp}")
            if died:
                doc = json.load(open(rp))
                doc["profile"] = st["profile"]
                report = sanitizer_summary((p.stderr or "") + "\n" + tail)
                doc["detail"] = (f"worker process died (exit {p.returncode}) on this case and dies again "
                                 f"when the case is run alone: {report}")
                json.dump(doc, open(rp, "w"), indent=1)
                crash_violations.append({"clause": "crash", "detail": doc["detail"], "replay": rp,
                                         "case_index": idx})
            else:
                log(f"[{prop}] shard {i}: worker died at case {idx} (exit {p.returncode}) but the case "
                    f"passes alone; treated as infrastructure noise")
            skip.append(idx)
        return None, f"shard {i}: worker keeps dying (cases {skip})"

    with ThreadPoolExecutor(max_workers=nshards) as ex:
        results = list(ex.map(one, range(nshards)))
    sums = [r[0] for r in results if r[0] is not None]
    errs = [r[1] for r in results if r[1] is not None]
    if crash_violations:
        sums.append({"cases": 0, "nontrivial_fps": [], "classes": {}, "counters": {"crashing_cases": len(crash_violations)},
                     "violations": crash_violations, "known_hits": {}, "samples": [], "inconclusive": [],
                     "early_stop": False})
    return sums, errs


def sanitizer_summary(text):
    """First sanitizer / Miri / hook report in a stderr text, shortened."""
    keys = ("ERROR: AddressSanitizer", "WARNING: ThreadSanitizer", "Undefined Behavior", "VERIF-UNSAFE",
            "C18-DEADLOCK", "C18-SCHEDULER-TIMEOUT", "error: unsupported operation", "the evaluated program deadlocked",
            "memory allocation of", "panicked at")
    lines = text.splitlines()
    for i, l in enumerate(lines):
        if any(k in l for k in keys):
            return " | ".join(x.strip() for x in lines[i:i + 12])[:1500]
    return text[-600:]


def merge(summaries):
    m = {
        "cases": 0, "nontrivial": set(), "classes": {}, "counters": {},
        "violations": [], "known_hits": {}, "samples": [], "inconclusive": [],
        "notes": [], "early_stop": False, "unsafe_site_hits": None,
        "unsafe_precondition_failures": 0, "cache_writes": 0,
        "cache_replacements": 0, "rule": "", "kv": {}, "exhaustive_cases": 0,
    }
    for s in summaries:
        m["cases"] += s["cases"]
        m["nontrivial"].update(s["nontrivial_fps"])
        for k, v in s["classes"].items():
            m["classes"][k] = m["classes"].get(k, 0) + v
        for k, v in s["counters"].items():
            m["counters"][k] = m["counters"].get(k, 0) + v
        m["violations"].extend(s["violations"])
        for k, v in s["known_hits"].items():
            m["known_hits"][k] = m["known_hits"].get(k, 0) + v
        if len(m["samples"]) < 3:
            m["samples"].extend(s["samples"][: 3 - len(m["samples"])])
        m["inconclusive"].extend(s["inconclusive"])
        for n in s.get("notes", []):
            if n not in m["notes"] and len(m["notes"]) < 12:
                m["notes"].append(n)
        m["early_stop"] = m["early_stop"] or s["early_stop"]
        hits = s.get("unsafe_site_hits")
        if hits:
            if m["unsafe_site_hits"] is None:
                m["unsafe_site_hits"] = [0] * len(hits)
            m["unsafe_site_hits"] = [a + b for a, b in zip(m["unsafe_site_hits"], hits)]
        m["unsafe_precondition_failures"] += s.get("unsafe_precondition_failures", 0)
        m["cache_writes"] += s.get("cache_writes", 0)
        m["cache_replacements"] += s.get("cache_replacements", 0)
        m["rule"] = s.get("rule", m["rule"])
        m["exhaustive_cases"] += s.get("exhaustive_cases", 0)
        for k, v in s.get("kv_log", []):
            m["kv"].setdefault(k, {}).setdefault(v, set()).add(s.get("shard", 0))
    return m


def check_known_witnesses(binary, prop):
    """Re-execute committed witnesses of known findings. Returns
    (lines to print, infrastructure errors)."""
    lines, errs = [], []
    for k in load_known(prop):
        w = os.path.join(VERIF, k.get("witness", ""))
        if not os.path.exists(w):
            errs.append(f"known finding witness missing: {w}")
            continue
        p = subprocess.run([binary, "replay", w], capture_output=True, text=True,
                           env=BASE_ENV, timeout=600)
        try:
            r = json.loads(p.stdout.strip().splitlines()[-1])
        except Exception:  # noqa: BLE001
            errs.append(f"witness {w}: replay failed: {(p.stderr or p.stdout)[-500:]}")
            continue
        if r.get("reproduced") or any(v[0] in k["clause"].split("|") for v in r.get("violations", [])):
            lines.append(f"KNOWN-FINDING: property={prop} {k['text']} [clause={k['clause']} witness={k['witness']}]")
        else:
            log(f"[known] witness {k['witness']} no longer reproduces clause {k['clause']} (finding may be repaired)")
    return lines, errs


def write_evidence(prop, tier, seed, level, coverage, wall, violations, assumptions):
    os.makedirs(EVIDENCE, exist_ok=True)
    doc = {
        "property_id": prop,
        "tier": tier,
        "seed": seed,
        "level": level,
        "coverage": coverage,
        "assumptions": assumptions,
        "wall_s": round(wall, 2),
        "violations": violations,
    }
    path = os.path.join(EVIDENCE, f"{prop}.json")
    tmp = path + ".tmp"
    with open(tmp, "w") as f:
        json.dump(doc, f, indent=1, sort_keys=True)
    os.replace(tmp, path)
    return path


ASSUMPTIONS = [
    "verdicts are about the executions produced by this run only (sampling, not proof)",
    "reference models in harness/src/model are correct renderings of the property statements",
    "rustc/cargo toolchain 1.83.0 and the dependency crates behave as specified",
]


def run_property(prop, tier, seed):
    t0 = time.time()
    if prop not in PLANS:
        log(f"no check registered for {prop}")
        return 2
    plan = PLANS[prop]
    ev_path = os.path.join(EVIDENCE, f"{prop}.json")
    if os.path.exists(ev_path):
        os.remove(ev_path)
    outdir = os.path.join(BUILD, "out")
    infra_errors = []
    stage_reports = []
    total = merge([])
    known_lines = []
    binaries = {}
    for st in plan:
        prof = st["profile"]
        if prof not in binaries:
            b, err = build(prof)
            if b is None:
                log(f"INCONCLUSIVE property={prop} build of profile {prof} failed:\n{err}")
                return 2
            binaries[prof] = b
    # known-finding witnesses are re-executed first (dbg or first profile)
    first_bin = binaries[plan[0]["profile"]]
    kl, ke = check_known_witnesses(first_bin, prop)
    known_lines.extend(kl)
    infra_errors.extend(ke)
    for st in plan:
        if st["kind"] == "worker":
            sums, errs = run_worker_stage(binaries[st["profile"]], st, prop, tier, seed, outdir)
        else:
            mod = __import__("vstages")
            sums, errs = mod.run_stage(st, prop, tier, seed, binaries, outdir)
        infra_errors.extend(errs)
        m = merge(sums)
        # cross-process log must be a function: same key => same value
        xkeys = len(m["kv"])
        xprocs = max((sum(len(p) for p in vals.values()) for vals in m["kv"].values()), default=0)
        for k, vals in m["kv"].items():
            if len(vals) > 1:
                os.makedirs(REPLAYS, exist_ok=True)
                path = os.path.join(REPLAYS, f"{prop}-xproc-{k}.json")
                with open(path, "w") as f:
                    json.dump({"property": prop, "clause": "value_differs_across_processes",
                               "kind": "cross_process", "key": k,
                               "values": {v: sorted(p) for v, p in vals.items()},
                               "detail": "the same case produced different values in different worker processes; re-run bin/check " + prop},
                              f, indent=1)
                m["violations"].append({"clause": "value_differs_across_processes",
                                        "detail": f"key {k}: values {sorted(vals)}", "replay": path,
                                        "case_index": -1})
        stage_reports.append({
            "stage": f"{st['kind']}:{st['profile']}:{st['prop']}",
            "cases": m["cases"],
            "exhaustive_cases": m["exhaustive_cases"],
            "cross_process_keys": xkeys,
            "cross_process_max_processes_per_key": xprocs,
            "distinct_nontrivial": len(m["nontrivial"]),
            "classes": m["classes"],
            "counters": m["counters"],
            "known_finding_cases": m["known_hits"],
            "early_stop": m["early_stop"],
            "notes": m["notes"],
            "unsafe_site_hits": m["unsafe_site_hits"],
            "unsafe_precondition_failures": m["unsafe_precondition_failures"],
            "cache_writes": m["cache_writes"],
            "cache_replacements": m["cache_replacements"],
        })
        if st.get("require_all_unsafe_sites"):
            hits = m["unsafe_site_hits"] or []
            missing = [i for i, h in enumerate(hits) if h == 0]
            if not hits or missing:
                infra_errors.append(f"unsafe sites never reached by the workload: {missing or 'all'} (inconclusive)")
        # accumulate
        total["cases"] += m["cases"]
        total["nontrivial"].update(f"{st['profile']}:{x}" if len(plan) > 1 and False else x
                                   for x in m["nontrivial"])
        total["violations"].extend(m["violations"])
        total["inconclusive"].extend(m["inconclusive"])
        if len(total["samples"]) < 3:
            total["samples"].extend(m["samples"][: 3 - len(total["samples"])])
        total["rule"] = total["rule"] or m["rule"]
        for k, v in m["known_hits"].items():
            total["known_hits"][k] = total["known_hits"].get(k, 0) + v

    wall = time.time() - t0
    # distinct violations by replay path
    seen = set()
    viols = []
    for v in total["violations"]:
        if v["replay"] in seen:
            continue
        seen.add(v["replay"])
        viols.append(v)
    coverage = {
        "evaluations": total["cases"],
        "distinct_nontrivial": len(total["nontrivial"]),
        "rule": total["rule"],
        "samples": total["samples"] if total["samples"] else ["<no non-trivial case observed>"],
        "stages": stage_reports,
        "known_finding_cases": total["known_hits"],
        "inconclusive_events": total["inconclusive"][:10],
        "infrastructure_errors": infra_errors[:10],
        "violating_cases": [{"clause": v["clause"], "detail": v["detail"][:400], "replay": v["replay"]} for v in viols[:10]],
    }
    write_evidence(prop, tier, seed, "exploration", coverage, wall, len(viols), ASSUMPTIONS)
    for line in known_lines:
        log(line)
    log(f"[{prop}] tier={tier} seed={seed} cases={total['cases']} distinct_nontrivial={len(total['nontrivial'])} "
        f"violations={len(viols)} known_finding_cases={sum(total['known_hits'].values())} wall={wall:.1f}s")
    if viols:
        for v in viols[:20]:
            log(f"VIOLATION property={prop} replay={v['replay']}")
            log(f"  clause={v['clause']} {v['detail'][:300]}")
        return 1
    if infra_errors or total["inconclusive"]:
        for e in (infra_errors + total["inconclusive"])[:10]:
            log(f"INCONCLUSIVE property={prop} {e}")
        return 2
    if len(total["nontrivial"]) < 2:
        log(f"INCONCLUSIVE property={prop} the monitor observed fewer than 2 non-trivial cases")
        return 2
    return 0


def replay(path):
    b, err = build("dbg")
    if b is None:
        log(f"INCONCLUSIVE build failed:\n{err}")
        return 2
    try:
        doc = json.load(open(path))
    except Exception as e:  # noqa: BLE001
        log(f"cannot read {path}: {e}")
        return 2
    prof = doc.get("profile", "dbg")
    if prof != "dbg":
        b, err = build(prof)
        if b is None:
            log(f"INCONCLUSIVE build failed:\n{err}")
            return 2
    p = subprocess.run([b, "replay", path], capture_output=True, text=True, env=BASE_ENV)
    sys.stdout.write(p.stdout)
    sys.stderr.write(p.stderr[-2000:])
    if p.returncode == 1:
        log(f"VIOLATION property={doc.get('property')} replay={path}")
    return p.returncode
