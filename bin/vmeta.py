"""Per-property texts for MANIFEST.json."""

HOOK_COMMITS = ["00e67b0", "4a80b6f", "07e0e43", "3d6248f", "77bcbc9", "e49b8f8", "dce2a65"]

NOT_APPLICABLE = {}

_TB = ("trusted base: the reference models in /verif/harness/src/model (written from the property statement, "
       "sharing no code with the crate), the Rust toolchain, and the workload generators' reach; "
       "a pass means 'held on the executions of this run', not a proof")

META = {
    "C01": {
        "level": "runtime monitor at the API boundary over seeded random source trees (all leaf kinds, multi-byte and invalid UTF-8 text, wild maps, custom sources over multi-piece ropes, every composite, cold and warm caches): every delivered chunk is recorded and the concatenation is compared with source() of the same object; exploration is the right level because the property quantifies over unbounded compositions and only executions of the real splitting code can refute it",
        "design_ref": "DESIGN.md section 4, C01",
        "note": _TB,
        "technique": "runtime monitoring: boundary event recorder + reassembly oracle over generated trees",
    },
    "C02": {
        "level": "runtime monitor: a position tracker scans the delivered chunk texts and is compared with every reported (line, column) and with the returned GeneratedInfo, for columns x final-source in {true,false}^2 (final-source through hook verif::map_options), on seeded random ASCII trees with replacement sets biased to line-break surgery",
        "design_ref": "DESIGN.md section 4, C02",
        "note": _TB,
        "technique": "runtime monitoring: recorded chunk stream vs scanning position model",
    },
    "C03": {
        "level": "runtime monitor: the non-final chunk stream and map() of the same object are both turned into attribution tables (map decoded by an independent VLQ decoder, lookup rule of the format) and compared at every character position, both column settings and both call orders (stream then map(), map() then stream), plus 'map() is None iff no mapped chunk'; equal CachedSource nodes of a tree are one shared instance in every second case",
        "design_ref": "DESIGN.md section 4, C03",
        "note": _TB + "; three known findings (KNOWN_FINDINGS.txt) are attributed by precise triggers, everything else is reported",
        "technique": "runtime monitoring: attribution-function equality between recorded stream and decoded map()",
    },
    "C05": {
        "level": "runtime monitor over call histories: every observation (source, rope, buffer, size, to_writer, stream, on the object, on fresh clones and on clones taken mid-history) is compared with an executable splice model of the replacement list at that moment; histories interleave mutators and observers so a stale cached order is visible at the next observation; clones live on and the history continues on the object and its clones in turn (each with its own model); a panic on an in-domain history is a violation",
        "design_ref": "DESIGN.md section 4, C05",
        "note": _TB,
        "technique": "runtime monitoring: history replay against an executable sequential model",
    },
    "C07": {
        "level": "runtime monitor comparing the five content views (taken in a random order, again in reverse order, and on a clone; trees include replacement ranges with end < start, for which the views are compared with each other only) with each other and with the byte/text model of the spec, plus fault injection: a writer failing after k bytes (short writes included) for every k (thorough) or sampled k (quick)",
        "design_ref": "DESIGN.md section 4, C07",
        "note": _TB,
        "technique": "runtime monitoring with fault injection at the writer boundary",
    },
    "C11": {
        "level": "runtime monitor: every map() is decoded by the reference decoder and checked for charset, strictly increasing positions before the end of source() and in-table indices; every stream (4 modes) is checked online for announce-before-use and dense announced indices; the object is asked after a random prelude of observer calls, equal CachedSource nodes are one shared instance in every second case",
        "design_ref": "DESIGN.md section 4, C11",
        "note": _TB,
        "technique": "runtime monitoring: online trace checker over stream events + decoded-map invariants",
    },
    "C13": {
        "level": "runtime monitor (metamorphic): 15 differently built trees per random triple (incl. CachedSource wrappers whose cache was filled by streaming or by an earlier enclosing map()) are compared with their reference on text and on per-character attribution through map(), both column settings",
        "design_ref": "DESIGN.md section 4, C13",
        "note": _TB + "; one known finding (finer column after empty replacements) attributed by a precise trigger",
        "technique": "runtime monitoring: metamorphic relation oracle over attribution functions",
    },
    "C04": {
        "level": "runtime monitor with an independent ground truth: byte provenance of every output character is computed from the spec by the concat / splice / tokenizer models, and the decoded map() is checked against it clause by clause (segment targets, surviving original characters, raw text unmapped, statement starts exact, tables, columns=false line attribution); the object is asked after a random prelude of observer calls, equal CachedSource nodes are one shared instance in every second case",
        "design_ref": "DESIGN.md section 4, C04",
        "note": _TB + "; the line break of an empty original line (a token of its own that the documented splitting rule leaves unmapped) is a don't-care for clause (b)",
        "technique": "runtime monitoring: decoded map() vs byte-provenance model over generated trees",
    },
    "C06": {
        "level": "runtime monitor: ConcatSource - attribution through the composite's map() at every position of child k equals child k's own map() (file, content, line, column, name; first mapped child piece per line for columns=false); ReplaceSource - every surviving inner character and every replacement content character is looked up in map() and compared with the expectation derived from the recorded inner chunk stream and the splice position map (exact column when the recorded content matches entirely or not at all, bounds otherwise); the composite is asked after a random prelude of observer calls",
        "design_ref": "DESIGN.md section 4, C06",
        "note": _TB,
        "technique": "runtime monitoring: child-vs-composite attribution oracle with splice position map",
    },
    "C08": {
        "level": "runtime monitor: all four (columns, final_source) streaming variants of a SourceMapSource, of a user-defined source going through the public stream_chunks_default with &str and with a multi-piece Rope, and map() of an enclosing ConcatSource are compared per character with the reference lookup in the given map (sourceRoot applied: none, empty, with / without one trailing slash, URL-like roots ending in several slashes), plus the announced tables",
        "design_ref": "DESIGN.md section 4, C08",
        "note": _TB + "; for empty text nothing needs to be announced (DESIGN 3.6.1)",
        "technique": "runtime monitoring: recorded streams vs reference map lookup",
    },
    "C09": {
        "level": "runtime monitor: map() of a SourceMapSource with inner map is decoded independently and compared per character with a reference composition over the decoded outer and inner maps (inner lookup, fallback to the inner source or removal, pass-through, contents, names; sourceRoot on either map, the source named like the resolved outer source)",
        "design_ref": "DESIGN.md section 4, C09",
        "note": _TB,
        "technique": "runtime monitoring: reference map composition oracle",
    },
    "C16": {
        "level": "runtime monitor with a flat String as executable model: exhaustive small scope (every rope over <=3/<=4 pieces from 7 pieces incl. empty, line break and 1-4 byte characters, built by from_iter / new+add / from+add / append; every byte index, every slice range in every start/end bound kind incl. usize::MAX, every differently chunked prefix / equal / unequal partner incl. same-length partners that differ in one character or in character structure, lines and slices re-observed) followed by random deeper programs; an in-domain panic is a violation",
        "design_ref": "DESIGN.md section 4, C16",
        "note": _TB,
        "technique": "runtime monitoring: model-based differential checking, exhaustive small scope + random programs",
    },
    "C10": {
        "level": "runtime monitor over call histories on a CachedSource and its clones: every answer is compared with an uncached instance of the same tree (text, GeneratedInfo, attribution per character / per line), repeated map() answers must be equal, columns=false answers must not carry column detail, and the cache slots are peeked through hook verif_peek after every call (write-once per key)",
        "design_ref": "DESIGN.md section 4, C10",
        "note": _TB + "; wrapped trees exclude a CachedSource beneath a ReplaceSource because the reference instance must itself be history independent (that dependence is the known finding recorded under C03)",
        "technique": "runtime monitoring: history replay against an uncached reference instance + cache-slot invariant hook",
    },
    "C12": {
        "level": "runtime monitor with an independent reference codec: exhaustive sweep of all single-field deltas |d| < 2^12 (quick) / 2^20 (thorough) plus all 2^k-1, 2^k, 2^k+1 up to 2^30 in every field and sign through encoder and decoder, then random sorted sequences (subsequence + allowed-drop + attribution + re-encode checks, each encoded through eleven iterator shapes: adaptors whose size hint has lower bound 0, loose or missing upper bounds, the decoder fed straight back), reference spellings with redundant digits / empty segments / backward columns / ';' runs against the crate decoder, and the lines-only encoder (hook)",
        "design_ref": "DESIGN.md section 4, C12",
        "note": _TB + "; the sweep is exhaustive only for single-field deltas of two-segment inputs",
        "technique": "runtime monitoring: differential testing against a reference VLQ codec, exhaustive delta sweep",
    },
    "C14": {
        "level": "runtime monitor: for random trees, a second build from the same constructor calls, a deep clone and a tree one edit away, ==/hash (through BoxSource, &dyn Source, update_hash) are taken before and after random observer histories applied to one operand only, and all observers are compared between equal values / clones and between first and second call (streams and maps by what they attribute); in every second case maps with equal tables are derived from each other by clone() + setters (shared allocations)",
        "design_ref": "DESIGN.md section 4, C14",
        "note": _TB + "; one known finding (non-ASCII text through CachedSource replay) attributed by a precise trigger",
        "technique": "runtime monitoring: history-perturbed equality / hash / observer coherence oracle",
    },
    "C20": {
        "level": "runtime monitor: for pairs one edit apart (28 edit kinds at random depth; trees include replacement ranges with end < start) and independent pairs whose source()/buffer()/map() differ, hashes (FNV, SipHash, &dyn, update_hash) must differ and == must be false (in every second case maps with equal tables share their allocations: clone() + setters); hashes of a shared case stream are logged by 16 separate worker processes, recomputed in a second thread and after observer histories, and the merged log must be a function",
        "design_ref": "DESIGN.md section 4, C20",
        "note": _TB + "; a genuine 64-bit collision would be reported (expected ~1e-7 per run)",
        "technique": "runtime monitoring: sensitivity oracle over one-edit pairs + offline join of per-process hash logs",
    },
    "C15": {
        "level": "runtime monitor with an independent JSON parser (serde_json) as oracle: random SourceMap values with hostile strings are serialised by to_json / to_writer (into a Vec and into short-writing / interrupted writers, byte-identical each time), parsed independently and by the three crate entry points; values derived by clone() + each setter are serialised and round-tripped as well (the original must stay unchanged); hand-spelled documents (nulls, missing arrays, shuffled keys, \\u escapes, surrogate pairs) are parsed by the crate and compared with the expected value",
        "design_ref": "DESIGN.md section 4, C15",
        "note": _TB + "; serde_json is the trusted JSON oracle",
        "technique": "runtime monitoring: differential round-trip against an independent JSON implementation",
    },
    "C17": {
        "level": "runtime monitor for totality: every panic inside the library (caught per case, attributed by backtrace to library vs harness, keyed by function and kind) and every worker death (abort, allocation failure under an address-space cap, watchdog) is a violation; three hostile input families (mappings strings, parser bytes, source trees with wild maps) run in an overflow-checked debug build and in a release build",
        "design_ref": "DESIGN.md section 4, C17",
        "note": _TB + "; hangs are bounded by a per-shard watchdog (inconclusive unless the case reproduces alone); one known finding (non-ASCII nested ReplaceSource column overflow)",
        "technique": "runtime monitoring: panic / crash / resource monitor over hostile inputs in debug and release builds",
    },
    "C18": {
        "level": "three complementary runtime monitors: (1) real OS threads under a token-passing scheduler that switches only at the guarded schedule points inside the library (hook H3) and at callbacks of a user-defined child source; schedules enumerated by DFS with a pre-emption bound plus random walks (tens of thousands of schedules, distinct traces counted); every answer compared with a single-threaded copy, cache stores that replace a value counted by hook, logical deadlock detection through lock probes; the same under AddressSanitizer; (2) free-running 4-8 thread stress under ThreadSanitizer and AddressSanitizer, incl. a lazy-decode family (large invalid UTF-8 leaf, cold, every thread's first call right after a barrier; the decoders have no schedule point); (3) small thread programs under Miri (data races, dangling borrows, deadlocks)",
        "design_ref": "DESIGN.md section 4, C18",
        "note": _TB + "; interleavings are explored at hook granularity with bounded pre-emptions, weak-memory effects only as far as TSan / Miri model them; trees with a CachedSource beneath a ReplaceSource are excluded because their sequential answers depend on the call history (known finding under C03); the oracle presumes history-independent sequential answers (C10); a case whose single-threaded reference panics is not evaluated (C17)",
        "technique": "runtime monitoring: controlled-schedule exploration of real threads + ThreadSanitizer / AddressSanitizer / Miri stress",
    },
    "C19": {
        "level": "runtime monitors and sanitizers over rope programs (exhaustive small scope + random) and hostile source trees streamed with callbacks that retain every borrow until the outermost stream call returns: (1) debug build with precondition hooks (H4) immediately before each of the 14 unsafe operations, every site must be reached; (2) the same workload under AddressSanitizer with the hooks in count-only mode; (3) a Miri-sized variant under Miri (Stacked Borrows, bounds, UTF-8 validity, dangling references)",
        "design_ref": "DESIGN.md section 4, C19",
        "note": _TB + "; red-zone tools miss intra-object overflows, Miri covers small inputs only: a clean run is 'no report on these executions', not memory safety; the concurrent half of C19 re-runs C18's scheduled / stress / Miri workloads with RSV_MEMORY_ONLY=1: only failed unsafe preconditions, the write-once cache invariant, invalid UTF-8 and sanitizer / Miri reports count, behavioural differences are left to C18 and C16",
        "technique": "runtime monitoring: precondition assertions at hooked unsafe sites + AddressSanitizer + Miri",
    },
}
