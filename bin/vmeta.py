"""Per-property texts for MANIFEST.json."""

HOOK_COMMITS = ["00e67b0", "4a80b6f", "07e0e43", "3d6248f"]

NOT_APPLICABLE = {}

_TB = ("trusted base: the reference models in /verif/harness/src/model (written from the property statement, "
       "sharing no code with the crate), the Rust toolchain, and the workload generators' reach; "
       "a pass means 'held on the executions of this run', not a proof")

META = {
    "C01": {
        "level": "runtime monitor at the API boundary over seeded random source trees (all leaf kinds, multi-byte and invalid UTF-8 text, wild maps, custom sources over multi-piece ropes, every composite, cold and warm caches): every delivered chunk is recorded and the concatenation is compared with source() of the same object; exploration is the right level because the property quantifies over unbounded compositions and only executions of the real splitting code can refute it",
        "design_ref": "DESIGN.md section 4, C01",
        "note": _TB,
        "technique": "runtime monitoring: boundary event recorder + reassembly oracle over generated trees",
    },
    "C02": {
        "level": "runtime monitor: a position tracker scans the delivered chunk texts and is compared with every reported (line, column) and with the returned GeneratedInfo, for columns x final-source in {true,false}^2 (final-source through hook verif::map_options), on seeded random ASCII trees with replacement sets biased to line-break surgery",
        "design_ref": "DESIGN.md section 4, C02",
        "note": _TB,
        "technique": "runtime monitoring: recorded chunk stream vs scanning position model",
    },
    "C03": {
        "level": "runtime monitor: the non-final chunk stream and map() of the same object are both turned into attribution tables (map decoded by an independent VLQ decoder, lookup rule of the format) and compared at every character position, both column settings, plus 'map() is None iff no mapped chunk'",
        "design_ref": "DESIGN.md section 4, C03",
        "note": _TB + "; three known findings (KNOWN_FINDINGS.txt) are attributed by precise triggers, everything else is reported",
        "technique": "runtime monitoring: attribution-function equality between recorded stream and decoded map()",
    },
    "C05": {
        "level": "runtime monitor over call histories: every observation (source, rope, buffer, size, to_writer, stream, on the object, on fresh clones and on clones taken mid-history) is compared with an executable splice model of the replacement list at that moment; histories interleave mutators and observers so a stale cached order is visible at the next observation",
        "design_ref": "DESIGN.md section 4, C05",
        "note": _TB,
        "technique": "runtime monitoring: history replay against an executable sequential model",
    },
    "C07": {
        "level": "runtime monitor comparing the five content views with each other and with the byte/text model of the spec, plus fault injection: a writer failing after k bytes (short writes included) for every k (thorough) or sampled k (quick)",
        "design_ref": "DESIGN.md section 4, C07",
        "note": _TB,
        "technique": "runtime monitoring with fault injection at the writer boundary",
    },
    "C11": {
        "level": "runtime monitor: every map() is decoded by the reference decoder and checked for charset, strictly increasing positions before the end of source() and in-table indices; every stream (4 modes) is checked online for announce-before-use and dense announced indices",
        "design_ref": "DESIGN.md section 4, C11",
        "note": _TB,
        "technique": "runtime monitoring: online trace checker over stream events + decoded-map invariants",
    },
    "C13": {
        "level": "runtime monitor (metamorphic): 13 differently built trees per random triple are compared with their reference on text and on per-character attribution through map(), both column settings",
        "design_ref": "DESIGN.md section 4, C13",
        "note": _TB + "; one known finding (finer column after empty replacements) attributed by a precise trigger",
        "technique": "runtime monitoring: metamorphic relation oracle over attribution functions",
    },
}
