//! One-step edits of a tree spec (for the equality / hashing properties).

use crate::{
  gen::{gen_text, Pool},
  rng::Rng,
  spec::{How, MapSpec, Op, Orig, Seg, Spec},
};

fn count(spec: &Spec) -> usize {
  spec.size()
}

/// Apply `f` to the n-th node (pre-order); returns the edited tree.
fn edit_nth(spec: &Spec, n: &mut usize, f: &mut dyn FnMut(&Spec) -> Option<Spec>) -> Option<Spec> {
  if *n == 0 {
    *n = usize::MAX;
    return f(spec);
  }
  *n -= 1;
  match spec {
    Spec::Concat { children, how } => {
      for (i, c) in children.iter().enumerate() {
        if let Some(e) = edit_nth(c, n, f) {
          let mut ch = children.clone();
          ch[i] = e;
          return Some(Spec::Concat { children: ch, how: *how });
        }
        if *n == usize::MAX {
          return None;
        }
      }
      None
    }
    Spec::Replace { inner, ops } => edit_nth(inner, n, f).map(|e| Spec::Replace { inner: Box::new(e), ops: ops.clone() }),
    Spec::Cached { inner } => edit_nth(inner, n, f).map(|e| Spec::Cached { inner: Box::new(e) }),
    Spec::Boxed { inner } => edit_nth(inner, n, f).map(|e| Spec::Boxed { inner: Box::new(e) }),
    _ => None,
  }
}

/// Position of a byte that can never occur in UTF-8 (0xf8..=0xff, 0xc0, 0xc1).
fn invalid_byte_position(b: &[u8]) -> Option<usize> {
  b.iter().position(|x| *x >= 0xf8 || *x == 0xc0 || *x == 0xc1)
}

fn edit_text(rng: &mut Rng, t: &str) -> String {
  let mut s = t.to_string();
  match rng.below(3) {
    0 => s.push('z'),
    1 => s.insert(0, 'z'),
    _ => {
      if s.is_empty() {
        s.push('\n')
      } else {
        s.pop();
      }
    }
  }
  s
}

fn edit_map(rng: &mut Rng, m: &MapSpec, kinds: &mut Vec<&'static str>) -> MapSpec {
  let mut m = m.clone();
  match rng.below(9) {
    0 => {
      kinds.push("map.mappings");
      m.segs.push(Seg {
        gl: m.segs.last().map_or(1, |s| s.gl + 1),
        gc: 0,
        orig: Some(Orig { src: 0, line: 1, col: 0, name: None }),
      });
    }
    1 => {
      kinds.push("map.sources");
      if m.sources.is_empty() {
        m.sources.push("x.js".into())
      } else {
        m.sources[0].push('x')
      }
    }
    2 => {
      kinds.push("map.sourcesContent");
      if m.contents.is_empty() {
        m.contents.push("Z".into())
      } else {
        m.contents[0].push('Z')
      }
    }
    3 => {
      kinds.push("map.names");
      m.names.push("extra".into());
    }
    4 => {
      kinds.push("map.sourceRoot");
      m.source_root = match &m.source_root {
        None => Some("root".into()),
        Some(r) => Some(format!("{r}x")),
      };
    }
    5 => {
      kinds.push("map.file");
      m.file = match &m.file {
        None => Some("f.js".into()),
        Some(_) => None,
      };
    }
    6 => {
      kinds.push("map.debugId");
      m.debug_id = match &m.debug_id {
        None => Some("00000000-0000-0000-0000-000000000001".into()),
        Some(_) => None,
      };
    }
    7 => {
      kinds.push("map.segment_target");
      if let Some(s) = m.segs.iter_mut().find(|s| s.orig.is_some()) {
        s.orig.as_mut().unwrap().col += 1;
      } else {
        m.names.push("only".into());
      }
    }
    _ => {
      kinds.push("map.segment_name");
      if let Some(s) = m.segs.iter_mut().find(|s| s.orig.is_some()) {
        let o = s.orig.as_mut().unwrap();
        o.name = match o.name {
          None => Some(0),
          Some(_) => None,
        };
        if m.names.is_empty() {
          m.names.push("nm".into());
        }
      } else {
        m.names.push("only2".into());
      }
    }
  }
  m
}

/// One random edit somewhere in the tree; `kinds` receives its description.
pub fn edit(rng: &mut Rng, spec: &Spec, pool: &Pool, kinds: &mut Vec<&'static str>) -> Option<Spec> {
  let total = count(spec);
  for _ in 0..8 {
    let mut n = rng.below(total);
    let depth_marker = n;
    let mut local = Rng::new(rng.next_u64());
    let mut k: Vec<&'static str> = Vec::new();
    let res = edit_nth(spec, &mut n, &mut |node| edit_node(&mut local, node, pool, &mut k));
    if let Some(r) = res {
      // the edited tree must stay inside the domain (replacement positions
      // on char boundaries of the edited inner text, one content per file name)
      if r != *spec && crate::shrink::domain_ok(&r) {
        kinds.extend(k);
        if depth_marker > 0 {
          kinds.push("nested");
        }
        return Some(r);
      }
    }
  }
  None
}

fn edit_node(rng: &mut Rng, node: &Spec, pool: &Pool, kinds: &mut Vec<&'static str>) -> Option<Spec> {
  Some(match node {
    Spec::Raw { text } => {
      if rng.chance(1, 4) {
        kinds.push("leaf_type");
        Spec::RawString { text: text.clone() }
      } else {
        kinds.push("leaf_text");
        Spec::Raw { text: edit_text(rng, text) }
      }
    }
    Spec::RawString { text } => {
      if rng.chance(1, 4) {
        kinds.push("leaf_type");
        Spec::RawBuffer { bytes: text.clone().into_bytes() }
      } else {
        kinds.push("leaf_text");
        Spec::RawString { text: edit_text(rng, text) }
      }
    }
    Spec::RawBytes { bytes } => {
      let mut b = bytes.clone();
      if let Some(i) = invalid_byte_position(&b).filter(|_| rng.chance(2, 3)) {
        // change a byte inside an invalid UTF-8 sequence into another invalid
        // one: buffer() changes, the lossy source() does not
        kinds.push("leaf_bytes_invalid_utf8");
        b[i] = if b[i] == 0xff { 0xfe } else { 0xff };
      } else {
        kinds.push("leaf_bytes");
        b.push(b'z');
      }
      Spec::RawBytes { bytes: b }
    }
    Spec::RawBuffer { bytes } => {
      if rng.chance(1, 4) {
        kinds.push("leaf_type");
        Spec::RawBytes { bytes: bytes.clone() }
      } else {
        let mut b = bytes.clone();
        if let Some(i) = invalid_byte_position(&b).filter(|_| rng.chance(2, 3)) {
          kinds.push("leaf_bytes_invalid_utf8");
          b[i] = if b[i] == 0xff { 0xfe } else { 0xff };
        } else {
          kinds.push("leaf_bytes");
          b.insert(0, b'z');
        }
        Spec::RawBuffer { bytes: b }
      }
    }
    Spec::Original { text, name } => match rng.below(3) {
      0 => {
        // small variations a normalising hash would swallow
        let variant = match rng.below(6) {
          0 if name.contains('/') => name.replace('/', "\\"),
          0 | 1 if name.contains('\\') => name.replace('\\', "/"),
          2 => {
            let mut c = name.chars();
            match c.next() {
              Some(f) if f.is_ascii_lowercase() => f.to_ascii_uppercase().to_string() + c.as_str(),
              _ => format!("{name}.x"),
            }
          }
          3 => format!("./{name}"),
          4 => format!("{name} "),
          _ => format!("{name}.x"),
        };
        kinds.push(if variant.ends_with(".x") { "original_name" } else { "original_name_variant" });
        Spec::Original { text: text.clone(), name: variant }
      }
      1 => {
        kinds.push("leaf_type");
        Spec::Raw { text: text.clone() }
      }
      _ => {
        kinds.push("leaf_text");
        // keep the file-name pool consistent: a new name for new content
        Spec::Original { text: edit_text(rng, text), name: format!("{name}.edited") }
      }
    },
    Spec::SourceMap { text, name, map, original, inner, remove } => {
      let mut s = (text.clone(), name.clone(), map.clone(), original.clone(), inner.clone(), *remove);
      match rng.below(if inner.is_some() { 6 } else { 3 }) {
        0 => {
          kinds.push("leaf_text");
          s.0 = edit_text(rng, text);
        }
        1 | 2 => s.2 = edit_map(rng, map, kinds),
        3 => {
          kinds.push("inner_map");
          let mut k2 = Vec::new();
          s.4 = inner.as_ref().map(|m| edit_map(rng, m, &mut k2));
        }
        4 => {
          kinds.push("remove_flag");
          s.5 = !remove;
        }
        _ => {
          kinds.push("original_source");
          s.3 = match original {
            Some(o) => Some(format!("{o}z")),
            None => Some("z".into()),
          };
        }
      }
      Spec::SourceMap { text: s.0, name: s.1, map: s.2, original: s.3, inner: s.4, remove: s.5 }
    }
    Spec::Custom { pieces, map, use_rope } => {
      kinds.push("leaf_text");
      let mut p = pieces.clone();
      p.push("z".into());
      Spec::Custom { pieces: p, map: map.clone(), use_rope: *use_rope }
    }
    Spec::Concat { children, how } => {
      let mut ch = children.clone();
      match rng.below(3) {
        0 => {
          kinds.push("child_added");
          ch.insert(rng.below(ch.len() + 1), Spec::Raw { text: gen_text(rng, 5, true) + "k" });
        }
        1 if !ch.is_empty() => {
          kinds.push("child_removed");
          ch.remove(rng.below(ch.len()));
        }
        _ if ch.len() >= 2 => {
          kinds.push("child_reordered");
          let i = rng.below(ch.len() - 1);
          ch.swap(i, i + 1);
        }
        _ => {
          kinds.push("child_added");
          ch.push(Spec::Raw { text: "k".into() });
        }
      }
      Spec::Concat { children: ch, how: *how }
    }
    Spec::Replace { inner, ops } => {
      let mut o = ops.clone();
      if o.is_empty() || rng.chance(1, 6) {
        kinds.push("replacement_added");
        o.push(Op { start: 0, end: 0, content: "k".into(), name: None, enforce: 1, plain_api: true, observe_before: false });
      } else {
        let i = rng.below(o.len());
        match rng.below(6) {
          0 => {
            kinds.push("replacement_start");
            // move to a neighbouring char boundary of the inner text
            let t = inner.model_text();
            let b = crate::gen::boundaries(&t);
            let cur = o[i].start as usize;
            let cand: Vec<usize> = b.iter().copied().filter(|x| *x != cur && *x as u32 <= o[i].end).collect();
            if let Some(&n) = cand.iter().min_by_key(|x| (**x as i64 - cur as i64).abs()) {
              o[i].start = n as u32;
            } else {
              o[i].content.push('k');
            }
          }
          1 => {
            kinds.push("replacement_end");
            let t = inner.model_text();
            let b = crate::gen::boundaries(&t);
            let cur = o[i].end as usize;
            if let Some(&n) = b.iter().find(|x| **x > cur) {
              o[i].end = n as u32;
            } else if o[i].end < u32::MAX - 8 {
              o[i].end += 1;
            } else {
              o[i].content.push('k');
            }
          }
          2 => {
            kinds.push("replacement_content");
            o[i].content.push('k');
          }
          3 => {
            kinds.push("replacement_name");
            o[i].name = match &o[i].name {
              None => Some(pool.names[0].clone()),
              Some(_) => None,
            };
          }
          4 => {
            kinds.push("replacement_enforce");
            o[i].enforce = (o[i].enforce + 1) % 3;
          }
          _ => {
            kinds.push("replacement_removed");
            o.remove(i);
          }
        }
      }
      Spec::Replace { inner: inner.clone(), ops: o }
    }
    Spec::Cached { inner } => {
      kinds.push("wrapper_removed");
      (**inner).clone()
    }
    Spec::Boxed { inner } => {
      kinds.push("wrapper_removed");
      (**inner).clone()
    }
  })
}

#[allow(dead_code)]
pub fn how_name(h: How) -> &'static str {
  match h {
    How::NewBoxed => "new_boxed",
    How::Add => "add",
    How::NewTyped => "new_typed",
  }
}
