//! Serialisable descriptions of source trees ("specs"), how to build the real
//! objects from them, and the trivial text model (what `source()` must be).

use std::{borrow::Cow, hash::Hash, sync::Arc};

use rspack_sources::{
  stream_chunks::{
    stream_chunks_default, GeneratedInfo, OnChunk, OnName, OnSource,
    StreamChunks,
  },
  BoxSource, CachedSource, ConcatSource, MapOptions, OriginalSource,
  RawBufferSource, RawSource, RawStringSource, ReplaceSource,
  ReplacementEnforce, Rope, Source, SourceExt, SourceMap, SourceMapSource,
  SourceMapSourceOptions,
};
use serde::{Deserialize, Serialize};

use crate::model::vlq;

#[derive(Clone, Debug, Serialize, Deserialize, PartialEq, Eq, Hash)]
pub struct Orig {
  pub src: u32,
  pub line: u32,
  pub col: u32,
  pub name: Option<u32>,
}

#[derive(Clone, Debug, Serialize, Deserialize, PartialEq, Eq, Hash)]
pub struct Seg {
  pub gl: u32,
  pub gc: u32,
  pub orig: Option<Orig>,
}

#[derive(Clone, Debug, Serialize, Deserialize, PartialEq, Eq, Hash, Default)]
pub struct MapSpec {
  /// Segments (sorted by generated position for consistent maps).
  pub segs: Vec<Seg>,
  /// When set, this literal is used as the mappings string instead of `segs`.
  pub raw_mappings: Option<String>,
  pub sources: Vec<String>,
  pub contents: Vec<String>,
  pub names: Vec<String>,
  pub source_root: Option<String>,
  pub file: Option<String>,
  pub debug_id: Option<String>,
}

type MapKey = (String, Vec<String>, Vec<String>, Vec<String>);
thread_local! {
  static MAP_POOL: std::cell::RefCell<Option<Vec<(MapKey, SourceMap)>>> = const { std::cell::RefCell::new(None) };
}

/// Turn sharing of map tables between equal-table maps on (with an empty
/// pool) or off for the builds that follow on this thread.
pub fn share_map_tables(on: bool) {
  MAP_POOL.with(|p| *p.borrow_mut() = if on { Some(Vec::new()) } else { None });
}

impl MapSpec {
  pub fn mappings_string(&self) -> String {
    match &self.raw_mappings {
      Some(s) => s.clone(),
      None => vlq::encode(&self.segs),
    }
  }

  pub fn build(&self) -> SourceMap {
    // with table sharing on (see `share_map_tables`), a map whose four
    // tables equal those of a map built earlier is derived from that map the
    // way programs do it: clone() and then the setters for file / sourceRoot
    // / debugId, so both values share their table allocations
    let key = (self.mappings_string(), self.sources.clone(), self.contents.clone(), self.names.clone());
    let shared = MAP_POOL.with(|p| {
      let p = p.borrow();
      p.as_ref().and_then(|v| v.iter().find(|(k, _)| *k == key).map(|(_, m)| m.clone()))
    });
    if let Some(mut map) = shared {
      map.set_source_root(self.source_root.clone());
      map.set_file(self.file.clone());
      map.set_debug_id(self.debug_id.clone());
      return map;
    }
    let map = self.build_fresh();
    MAP_POOL.with(|p| {
      if let Some(v) = p.borrow_mut().as_mut() {
        v.push((key, map.clone()));
      }
    });
    map
  }

  fn build_fresh(&self) -> SourceMap {
    let mut map = SourceMap::new(
      self.mappings_string(),
      self.sources.clone(),
      self.contents.clone(),
      self.names.clone(),
    );
    if let Some(root) = &self.source_root {
      map.set_source_root(Some(root.clone()));
    }
    if let Some(file) = &self.file {
      map.set_file(Some(file.clone()));
    }
    if let Some(id) = &self.debug_id {
      map.set_debug_id(Some(id.clone()));
    }
    map
  }
}

#[derive(Clone, Debug, Serialize, Deserialize, PartialEq, Eq, Hash)]
pub struct Op {
  pub start: u32,
  pub end: u32,
  pub content: String,
  pub name: Option<String>,
  /// 0 = Pre, 1 = Normal, 2 = Post
  pub enforce: u8,
  /// true: use insert*/replace (without enforce) API where possible
  pub plain_api: bool,
  /// call an observer (source()) on the ReplaceSource right before this
  /// replacement is added: the earlier replacements get sorted first, so the
  /// lazily sorted index has to be invalidated / extended by this call
  #[serde(default)]
  pub observe_before: bool,
}

#[derive(Clone, Copy, Debug, Serialize, Deserialize, PartialEq, Eq, Hash)]
pub enum How {
  /// `ConcatSource::new` over boxed children (nested concats are not flattened)
  NewBoxed,
  /// `ConcatSource::default()` + `add` of each child (typed concats are flattened)
  Add,
  /// `ConcatSource::new` over typed `ConcatSource` items (flattened)
  NewTyped,
}

#[derive(Clone, Debug, Serialize, Deserialize, PartialEq, Eq, Hash)]
pub enum Spec {
  Raw {
    text: String,
  },
  RawBytes {
    bytes: Vec<u8>,
  },
  RawString {
    text: String,
  },
  RawBuffer {
    bytes: Vec<u8>,
  },
  Original {
    text: String,
    name: String,
  },
  SourceMap {
    text: String,
    name: String,
    map: MapSpec,
    original: Option<String>,
    inner: Option<MapSpec>,
    remove: bool,
  },
  /// user-defined source going through the public `stream_chunks_default`
  Custom {
    pieces: Vec<String>,
    map: Option<MapSpec>,
    use_rope: bool,
  },
  Concat {
    children: Vec<Spec>,
    how: How,
  },
  Replace {
    inner: Box<Spec>,
    ops: Vec<Op>,
  },
  Cached {
    inner: Box<Spec>,
  },
  Boxed {
    inner: Box<Spec>,
  },
}

impl Spec {
  pub fn raw(text: &str) -> Spec {
    Spec::Raw { text: text.into() }
  }
  pub fn original(text: &str, name: &str) -> Spec {
    Spec::Original {
      text: text.into(),
      name: name.into(),
    }
  }
  pub fn concat(children: Vec<Spec>, how: How) -> Spec {
    Spec::Concat { children, how }
  }
  pub fn replace(inner: Spec, ops: Vec<Op>) -> Spec {
    Spec::Replace {
      inner: Box::new(inner),
      ops,
    }
  }
  pub fn cached(inner: Spec) -> Spec {
    Spec::Cached {
      inner: Box::new(inner),
    }
  }
  pub fn boxed(inner: Spec) -> Spec {
    Spec::Boxed {
      inner: Box::new(inner),
    }
  }

  pub fn to_json(&self) -> serde_json::Value {
    serde_json::to_value(self).unwrap()
  }

  pub fn fingerprint(&self) -> u64 {
    crate::rng::fnv(serde_json::to_string(self).unwrap().as_bytes())
  }

  /// Number of nodes.
  pub fn size(&self) -> usize {
    match self {
      Spec::Concat { children, .. } => {
        1 + children.iter().map(|c| c.size()).sum::<usize>()
      }
      Spec::Replace { inner, .. }
      | Spec::Cached { inner }
      | Spec::Boxed { inner } => 1 + inner.size(),
      _ => 1,
    }
  }

  pub fn depth(&self) -> usize {
    match self {
      Spec::Concat { children, .. } => {
        1 + children.iter().map(|c| c.depth()).max().unwrap_or(0)
      }
      Spec::Replace { inner, .. }
      | Spec::Cached { inner }
      | Spec::Boxed { inner } => 1 + inner.depth(),
      _ => 1,
    }
  }

  /// Visit every node.
  pub fn walk<'a>(&'a self, f: &mut dyn FnMut(&'a Spec)) {
    f(self);
    match self {
      Spec::Concat { children, .. } => children.iter().for_each(|c| c.walk(f)),
      Spec::Replace { inner, .. }
      | Spec::Cached { inner }
      | Spec::Boxed { inner } => inner.walk(f),
      _ => {}
    }
  }

  pub fn kind(&self) -> &'static str {
    match self {
      Spec::Raw { .. } => "Raw",
      Spec::RawBytes { .. } => "RawBytes",
      Spec::RawString { .. } => "RawString",
      Spec::RawBuffer { .. } => "RawBuffer",
      Spec::Original { .. } => "Original",
      Spec::SourceMap { inner: None, .. } => "SourceMap",
      Spec::SourceMap { inner: Some(_), .. } => "SourceMapCombined",
      Spec::Custom { .. } => "Custom",
      Spec::Concat { .. } => "Concat",
      Spec::Replace { .. } => "Replace",
      Spec::Cached { .. } => "Cached",
      Spec::Boxed { .. } => "Boxed",
    }
  }

  pub fn contains(&self, pred: &dyn Fn(&Spec) -> bool) -> bool {
    let mut found = false;
    self.walk(&mut |s| {
      if pred(s) {
        found = true
      }
    });
    found
  }

  /// The bytes `buffer()` must return.
  pub fn model_bytes(&self) -> Vec<u8> {
    match self {
      Spec::Raw { text }
      | Spec::RawString { text }
      | Spec::Original { text, .. }
      | Spec::SourceMap { text, .. } => text.as_bytes().to_vec(),
      Spec::RawBytes { bytes } | Spec::RawBuffer { bytes } => bytes.clone(),
      Spec::Custom { pieces, .. } => pieces.concat().into_bytes(),
      Spec::Concat { children, .. } => {
        children.iter().flat_map(|c| c.model_bytes()).collect()
      }
      // buffer() of a ReplaceSource is the bytes of its (lossy) text
      Spec::Replace { .. } => self.model_text().into_bytes(),
      Spec::Cached { inner } | Spec::Boxed { inner } => inner.model_bytes(),
    }
  }

  /// The string `source()` must return.
  pub fn model_text(&self) -> String {
    match self {
      Spec::Raw { text }
      | Spec::RawString { text }
      | Spec::Original { text, .. }
      | Spec::SourceMap { text, .. } => text.clone(),
      Spec::RawBytes { bytes } | Spec::RawBuffer { bytes } => {
        String::from_utf8_lossy(bytes).to_string()
      }
      Spec::Custom { pieces, .. } => pieces.concat(),
      Spec::Concat { children, .. } => {
        children.iter().map(|c| c.model_text()).collect()
      }
      Spec::Replace { inner, ops } => {
        crate::model::splice::splice_text(&inner.model_text(), ops)
      }
      Spec::Cached { inner } | Spec::Boxed { inner } => inner.model_text(),
    }
  }

  /// The same tree with every Cached node that lies beneath a ReplaceSource
  /// with at least one replacement removed (replaced by its inner source).
  pub fn without_cached_under_replace(&self) -> Spec {
    fn go(s: &Spec, under: bool) -> Spec {
      match s {
        Spec::Concat { children, how } => Spec::Concat {
          children: children.iter().map(|c| go(c, under)).collect(),
          how: *how,
        },
        Spec::Replace { inner, ops } => Spec::Replace {
          inner: Box::new(go(inner, under || !ops.is_empty())),
          ops: ops.clone(),
        },
        Spec::Cached { inner } => {
          if under {
            go(inner, under)
          } else {
            Spec::Cached {
              inner: Box::new(go(inner, under)),
            }
          }
        }
        Spec::Boxed { inner } => Spec::Boxed {
          inner: Box::new(go(inner, under)),
        },
        leaf => leaf.clone(),
      }
    }
    go(self, false)
  }

  /// The same tree with every Cached node replaced by its inner source.
  pub fn without_cached(&self) -> Spec {
    match self {
      Spec::Concat { children, how } => Spec::Concat {
        children: children.iter().map(|c| c.without_cached()).collect(),
        how: *how,
      },
      Spec::Replace { inner, ops } => Spec::Replace {
        inner: Box::new(inner.without_cached()),
        ops: ops.clone(),
      },
      Spec::Cached { inner } => inner.without_cached(),
      Spec::Boxed { inner } => Spec::Boxed {
        inner: Box::new(inner.without_cached()),
      },
      leaf => leaf.clone(),
    }
  }

  /// A replacement with end < start somewhere in the tree (the splice model
  /// does not define its text).
  pub fn has_reversed_op(&self) -> bool {
    self.contains(&|s| matches!(s, Spec::Replace { ops, .. } if ops.iter().any(|o| o.end < o.start)))
  }

  /// The same tree with every reversed replacement range (end < start) put
  /// in order; used by monitors whose statement covers start <= end only.
  pub fn with_ordered_ranges(&self) -> Spec {
    match self {
      Spec::Concat { children, how } => Spec::Concat {
        children: children.iter().map(|c| c.with_ordered_ranges()).collect(),
        how: *how,
      },
      Spec::Replace { inner, ops } => Spec::Replace {
        inner: Box::new(inner.with_ordered_ranges()),
        ops: ops
          .iter()
          .map(|o| {
            let mut o = o.clone();
            if o.end < o.start {
              std::mem::swap(&mut o.start, &mut o.end);
            }
            o
          })
          .collect(),
      },
      Spec::Cached { inner } => Spec::Cached { inner: Box::new(inner.with_ordered_ranges()) },
      Spec::Boxed { inner } => Spec::Boxed { inner: Box::new(inner.with_ordered_ranges()) },
      other => other.clone(),
    }
  }

  pub fn has_cached_under_replace(&self) -> bool {
    self.without_cached_under_replace() != *self
  }

  /// Follow the nodes that delegate `map()` to their inner source.
  pub fn map_delegate(&self) -> &Spec {
    match self {
      Spec::Cached { inner } | Spec::Boxed { inner } => inner.map_delegate(),
      Spec::Replace { inner, ops } if ops.is_empty() => inner.map_delegate(),
      other => other,
    }
  }

  pub fn is_all_utf8(&self) -> bool {
    !self.contains(&|s| match s {
      Spec::RawBytes { bytes } | Spec::RawBuffer { bytes } => {
        std::str::from_utf8(bytes).is_err()
      }
      _ => false,
    })
  }
}

// ---------------------------------------------------------------------------
// user-defined source

#[derive(Clone, Debug, PartialEq, Eq, Hash)]
pub struct CustomSource {
  pub pieces: Vec<String>,
  pub joined: String,
  pub map: Option<SourceMap>,
  pub use_rope: bool,
}

impl CustomSource {
  pub fn new(pieces: Vec<String>, map: Option<SourceMap>, use_rope: bool) -> Self {
    let joined = pieces.concat();
    Self {
      pieces,
      joined,
      map,
      use_rope,
    }
  }
}

impl Source for CustomSource {
  fn source(&self) -> Cow<str> {
    Cow::Borrowed(&self.joined)
  }
  fn rope(&self) -> Rope<'_> {
    Rope::from_iter(self.pieces.iter().map(|s| s.as_str()))
  }
  fn buffer(&self) -> Cow<[u8]> {
    Cow::Borrowed(self.joined.as_bytes())
  }
  fn size(&self) -> usize {
    self.joined.len()
  }
  /// A well-behaved user-defined source: its map() is derived from its own
  /// text-less stream with the crate's encoders (what `get_map` does for the
  /// built-in sources), so it is coherent with its chunk stream by
  /// construction.
  fn map(&self, options: &MapOptions) -> Option<SourceMap> {
    self.map.as_ref()?;
    let mut mappings = Vec::new();
    let mut sources: Vec<String> = Vec::new();
    let mut contents: Vec<String> = Vec::new();
    let mut names: Vec<String> = Vec::new();
    self.stream_chunks(
      &rspack_sources::verif::map_options(options.columns, true),
      &mut |_, m| mappings.push(m),
      &mut |i, s, c| {
        let i = i as usize;
        if sources.len() <= i {
          sources.resize(i + 1, String::new());
        }
        sources[i] = s.to_string();
        if let Some(c) = c {
          if contents.len() <= i {
            contents.resize(i + 1, String::new());
          }
          contents[i] = c.to_string();
        }
      },
      &mut |i, n| {
        let i = i as usize;
        if names.len() <= i {
          names.resize(i + 1, String::new());
        }
        names[i] = n.to_string();
      },
    );
    let s = rspack_sources::verif::encode_mappings_with(
      options.columns,
      mappings.into_iter(),
    );
    (!s.is_empty()).then(|| SourceMap::new(s, sources, contents, names))
  }
  fn to_writer(&self, writer: &mut dyn std::io::Write) -> std::io::Result<()> {
    writer.write_all(self.joined.as_bytes())
  }
}

impl StreamChunks for CustomSource {
  fn stream_chunks<'a>(
    &'a self,
    options: &MapOptions,
    on_chunk: OnChunk<'_, 'a>,
    on_source: OnSource<'_, 'a>,
    on_name: OnName<'_, 'a>,
  ) -> GeneratedInfo {
    if self.use_rope {
      stream_chunks_default(
        Rope::from_iter(self.pieces.iter().map(|s| s.as_str())),
        self.map.as_ref(),
        options,
        on_chunk,
        on_source,
        on_name,
      )
    } else {
      stream_chunks_default(
        self.joined.as_str(),
        self.map.as_ref(),
        options,
        on_chunk,
        on_source,
        on_name,
      )
    }
  }
}

// ---------------------------------------------------------------------------
// building

/// Read-only, non-blocking look at one cache slot of a CachedSource node.
pub type Peeker = Box<dyn Fn(&MapOptions) -> rspack_sources::VerifPeek + Send + Sync>;

/// While `Some`, every CachedSource node built by `build_with` registers a
/// peeker here (a clone of the node: it shares the cache).
pub static PEEKERS: std::sync::Mutex<Option<Vec<Peeker>>> = std::sync::Mutex::new(None);

fn register_peeker<T: 'static + Send + Sync>(c: &CachedSource<T>) {
  if let Some(v) = PEEKERS.lock().unwrap().as_mut() {
    let c2 = c.clone();
    v.push(Box::new(move |o| c2.verif_peek(o)));
  }
}

pub enum Built {
  Concat(ConcatSource),
  Other(BoxSource),
}

impl Built {
  pub fn boxed(self) -> BoxSource {
    match self {
      Built::Concat(c) => c.boxed(),
      Built::Other(b) => b,
    }
  }
}

pub fn enforce_of(e: u8) -> ReplacementEnforce {
  match e {
    0 => ReplacementEnforce::Pre,
    1 => ReplacementEnforce::Normal,
    _ => ReplacementEnforce::Post,
  }
}

pub fn apply_op<T: Source + std::hash::Hash + PartialEq + Eq + 'static>(
  r: &mut ReplaceSource<T>,
  op: &Op,
) {
  if op.observe_before {
    let _ = r.source().len();
  }
  let name = op.name.as_deref();
  if op.plain_api && op.enforce == 1 {
    if op.start == op.end {
      r.insert(op.start, &op.content, name);
    } else {
      r.replace(op.start, op.end, &op.content, name);
    }
  } else if op.start == op.end && op.plain_api {
    r.insert_with_enforce(op.start, &op.content, name, enforce_of(op.enforce));
  } else {
    r.replace_with_enforce(
      op.start,
      op.end,
      &op.content,
      name,
      enforce_of(op.enforce),
    );
  }
}

thread_local! {
  #[allow(clippy::type_complexity)]
  static NODE_POOL: std::cell::RefCell<Option<Vec<(Spec, (BoxSource, usize))>>> = const { std::cell::RefCell::new(None) };
}

thread_local! {
  #[allow(clippy::type_complexity)]
  static CACHED_POOL: std::cell::RefCell<Option<Vec<(Spec, (BoxSource, usize))>>> = const { std::cell::RefCell::new(None) };
}

/// Turn sharing of CachedSource instances on (with an empty pool) or off for
/// the builds that follow on this thread: with sharing on, a `Cached` node
/// whose inner spec equals that of a `Cached` node built earlier is not built
/// again but is the same object or a clone of it (both share the cache), as
/// when a bundler uses one cached module source at several places.
pub fn share_cached_instances(on: bool) {
  CACHED_POOL.with(|p| *p.borrow_mut() = if on { Some(Vec::new()) } else { None });
  NODE_POOL.with(|p| *p.borrow_mut() = if on { Some(Vec::new()) } else { None });
}

/// Number of `Cached` nodes that were answered from the pool since sharing
/// was switched on.
pub fn shared_cached_hits() -> usize {
  CACHED_POOL.with(|p| p.borrow().as_ref().map_or(0, |v| v.iter().map(|e| e.1 .1).sum()))
}

thread_local! {
  static LAST_NODE_HITS: std::cell::Cell<usize> = const { std::cell::Cell::new(0) };
}

/// Remember the node-pool hits of the build that just ended.
pub fn note_node_hits() {
  LAST_NODE_HITS.with(|c| c.set(shared_node_hits()));
}

pub fn shared_node_hits_last() -> usize {
  LAST_NODE_HITS.with(|c| c.get())
}

/// The same for the other stateful nodes (raw leaves over bytes, ReplaceSource).
pub fn shared_node_hits() -> usize {
  NODE_POOL.with(|p| p.borrow().as_ref().map_or(0, |v| v.iter().map(|e| e.1 .1).sum()))
}

fn pool_cached(inner: &Spec, built: &BoxSource) {
  CACHED_POOL.with(|p| {
    if let Some(v) = p.borrow_mut().as_mut() {
      v.push((inner.clone(), (built.clone(), 0)));
    }
  });
}

/// Hook applied to every node while building (used to wrap children in
/// instrumented sources). Identity by default.
pub type Wrap<'w> = &'w dyn Fn(&Spec, BoxSource) -> BoxSource;

pub fn build(spec: &Spec) -> Built {
  build_with(spec, &|_, b| b)
}

pub fn build_box(spec: &Spec) -> BoxSource {
  build(spec).boxed()
}

pub fn build_with(spec: &Spec, wrap: Wrap) -> Built {
  // instance sharing (see `share_cached_instances`) also covers the other
  // nodes with interior state (lazily decoded buffers, ReplaceSource's sorted
  // order): an equal node built earlier is used again as the same object
  let stateful = matches!(
    spec,
    Spec::Raw { .. } | Spec::RawBytes { .. } | Spec::RawBuffer { .. } | Spec::Replace { .. }
  );
  if stateful {
    let hit = NODE_POOL.with(|p| {
      let mut p = p.borrow_mut();
      p.as_mut().and_then(|v| {
        v.iter_mut().find(|(k, _)| k == spec).map(|e| {
          e.1 .1 += 1;
          e.1 .0.clone()
        })
      })
    });
    if let Some(b) = hit {
      return Built::Other(b);
    }
  }
  let built = build_node(spec, wrap);
  if stateful {
    if let Built::Other(b) = &built {
      NODE_POOL.with(|p| {
        if let Some(v) = p.borrow_mut().as_mut() {
          v.push((spec.clone(), (b.clone(), 0)));
        }
      });
    }
  }
  built
}

fn build_node(spec: &Spec, wrap: Wrap) -> Built {
  let other = |b: BoxSource| Built::Other(wrap(spec, b));
  match spec {
    // the constructor variant (owned / borrowed argument) is picked by the
    // length of the text so that every public constructor is exercised
    Spec::Raw { text } => other(if text.len() % 4 == 3 && text.len() < 64 && !cfg!(miri) {
      // needs a 'static str: leak a few bytes (not under Miri, which reports leaks)
      RawSource::from_static(Box::leak(text.clone().into_boxed_str())).boxed()
    } else if text.len() % 2 == 0 {
      RawSource::from(text.clone()).boxed()
    } else {
      RawSource::from(text.as_str()).boxed()
    }),
    Spec::RawBytes { bytes } => other(if bytes.len() % 2 == 0 {
      RawSource::from(bytes.clone()).boxed()
    } else {
      RawSource::from(bytes.as_slice()).boxed()
    }),
    Spec::RawString { text } => other(if text.len() % 4 == 3 && text.len() < 64 && !cfg!(miri) {
      RawStringSource::from_static(Box::leak(text.clone().into_boxed_str())).boxed()
    } else if text.len() % 2 == 0 {
      RawStringSource::from(text.clone()).boxed()
    } else {
      RawStringSource::from(text.as_str()).boxed()
    }),
    Spec::RawBuffer { bytes } => other(if bytes.len() % 2 == 0 {
      RawBufferSource::from(bytes.clone()).boxed()
    } else {
      RawBufferSource::from(bytes.as_slice()).boxed()
    }),
    Spec::Original { text, name } => {
      other(OriginalSource::new(text.clone(), name.clone()).boxed())
    }
    Spec::SourceMap {
      text,
      name,
      map,
      original,
      inner,
      remove,
    } => other(
      SourceMapSource::new(SourceMapSourceOptions {
        value: text.clone(),
        name: name.clone(),
        source_map: map.build(),
        original_source: original.clone(),
        inner_source_map: inner.as_ref().map(|m| m.build()),
        remove_original_source: *remove,
      })
      .boxed(),
    ),
    Spec::Custom {
      pieces,
      map,
      use_rope,
    } => other(
      CustomSource::new(
        pieces.clone(),
        map.as_ref().map(|m| m.build()),
        *use_rope,
      )
      .boxed(),
    ),
    Spec::Concat { children, how } => {
      let built: Vec<Built> =
        children.iter().map(|c| build_with(c, wrap)).collect();
      let c = match how {
        How::NewBoxed => {
          ConcatSource::new(built.into_iter().map(|b| b.boxed()))
        }
        How::Add => {
          let mut c = ConcatSource::default();
          for b in built {
            match b {
              Built::Concat(cs) => c.add(cs),
              Built::Other(o) => c.add(o),
            }
          }
          c
        }
        How::NewTyped => ConcatSource::new(built.into_iter().map(|b| match b {
          Built::Concat(cs) => cs,
          Built::Other(o) => ConcatSource::new([o]),
        })),
      };
      Built::Concat(c)
    }
    Spec::Replace { inner, ops } => {
      let inner = build_with(inner, wrap);
      match inner {
        // keep some type variety: a typed ConcatSource inside
        Built::Concat(cs) => {
          let mut r = ReplaceSource::new(cs);
          ops.iter().for_each(|op| apply_op(&mut r, op));
          other(r.boxed())
        }
        Built::Other(b) => {
          let mut r = ReplaceSource::new(b);
          ops.iter().for_each(|op| apply_op(&mut r, op));
          other(r.boxed())
        }
      }
    }
    Spec::Cached { inner }
      if CACHED_POOL.with(|p| {
        p.borrow().as_ref().is_some_and(|v| v.iter().any(|(k, _)| k == &**inner))
      }) =>
    {
      // instance sharing: an equal CachedSource was built before; use the
      // same object (even occurrences) or a clone of it (odd), both share
      // the cache with the first occurrence
      let (prev, n) = CACHED_POOL.with(|p| {
        let mut p = p.borrow_mut();
        let v = p.as_mut().unwrap();
        let e = v.iter_mut().find(|(k, _)| k == &**inner).unwrap();
        e.1 .1 += 1;
        (e.1 .0.clone(), e.1 .1)
      });
      if n % 2 == 0 {
        other(prev)
      } else {
        let c: Box<dyn Source> = dyn_clone::clone_box(&*prev);
        other(BoxSource::from(c))
      }
    }
    Spec::Cached { inner } => match build_with(inner, wrap) {
      Built::Concat(cs) => {
        let c = CachedSource::new(cs);
        register_peeker(&c);
        let b = c.boxed();
        pool_cached(inner, &b);
        other(b)
      }
      Built::Other(b) => {
        let c = CachedSource::new(b);
        register_peeker(&c);
        let b = c.boxed();
        pool_cached(inner, &b);
        other(b)
      }
    },
    Spec::Boxed { inner } => {
      let b = build_with(inner, wrap).boxed();
      // a box of a box: Arc<Arc<dyn Source>>
      other(Arc::new(b) as BoxSource)
    }
  }
}

/// FNV fingerprint of any hashable value (process independent).
pub fn stable_hash<T: Hash + ?Sized>(v: &T) -> u64 {
  let mut h = Fnv(0xcbf29ce484222325);
  v.hash(&mut h);
  std::hash::Hasher::finish(&h)
}

pub struct Fnv(pub u64);
impl std::hash::Hasher for Fnv {
  fn finish(&self) -> u64 {
    self.0
  }
  fn write(&mut self, bytes: &[u8]) {
    for b in bytes {
      self.0 ^= *b as u64;
      self.0 = self.0.wrapping_mul(0x100000001b3);
    }
  }
}
