//! C19 — unsafe code never acts outside its preconditions.
//!
//! The workload of this monitor is meant to be run under several builds: the
//! plain debug build (precondition hooks H4 at each of the 14 unsafe
//! operations), an AddressSanitizer build and Miri. The oracle inside the
//! process is: no failed precondition, every delivered text valid UTF-8, every
//! retained borrow readable after the outermost stream call returned (the
//! recorder keeps all borrowed chunks / names / contents until then). Memory
//! errors themselves are reported by the sanitizer / Miri and end the process.

use rspack_sources::{verif::map_options, MapOptions, Source};
use serde_json::{json, Value};

use super::{PanicPolicy, PropDef, Tier};
use crate::{
  gen::{gen_case, GenCfg},
  obs::Obs,
  record::{record, Ev},
  rng::Rng,
};

pub fn def() -> PropDef {
  PropDef {
    id: "C19",
    gen,
    check,
    panic_policy: PanicPolicy::UnsafeOnly,
    rule: "rope programs of C16 (exhaustive small scope incl. empty multi-piece ropes, then random programs: every observer, every slice range) and hostile source trees of C01 (multi-byte text, invalid UTF-8 buffers, wild maps, custom sources over multi-piece ropes, nested Replace / Cached) streamed in all four modes twice (cold and warm caches) with callbacks that keep every borrowed chunk, name and content until the outermost stream call has returned and read them afterwards; run in the debug build with precondition hooks at the 14 unsafe operations, under AddressSanitizer and under Miri; non-trivial = the case reached >= 3 distinct unsafe sites; distinct = case fingerprint",
    cases: |t| match t {
      Tier::Quick => 40_000,
      Tier::Thorough => 600_000,
    },
  }
}

pub fn enum_case(index: u64, tier: Tier) -> Option<Value> {
  // the first part of the rope enumeration (all ropes over <= 2 pieces and
  // the appends of small ropes are what reaches the unchecked indexing)
  if index < 3000 {
    return super::c16::enum_case(index * 7 % 6000, tier);
  }
  None
}

fn gen(rng: &mut Rng, tier: Tier) -> Value {
  crate::gen::HUGE_TEXTS.store(true, std::sync::atomic::Ordering::Relaxed);
  if rng.chance(1, 3) {
    return (super::c16::def().gen)(rng, tier);
  }
  let depth = match tier {
    Tier::Quick => rng.range(1, 3),
    Tier::Thorough => rng.range(1, 5),
  };
  let mut cfg = GenCfg::hostile(depth);
  cfg.reversed_ops = true;
  json!({ "spec": gen_case(rng, &cfg), "share_instances": rng.chance(1, 2) })
}

fn check(case: &Value, obs: &mut Obs) {
  let before = rspack_sources::verif::unsafe_hits();
  if case.get("prog").is_some() {
    obs.class("rope_program");
    // run the rope observers; their verdicts belong to C16, here only the
    // memory behaviour and UTF-8 validity matter
    let mut inner = Obs::new();
    (super::c16::def().check)(case, &mut inner);
    obs.count("rope_observations", inner.counters.values().sum());
    let prog: super::c16::Prog = serde_json::from_value(case["prog"].clone()).unwrap();
    let (r, _) = super::c16::eval(&prog);
    if std::str::from_utf8(&r.to_bytes()).is_err() {
      obs.fail("rope_invalid_utf8", format!("{:?}", case["prog"]));
    }
    for l in r.lines() {
      if std::str::from_utf8(&l.to_bytes()).is_err() {
        obs.fail("rope_invalid_utf8", format!("line of {:?}", case["prog"]));
      }
    }
  } else {
    obs.class("source_tree");
    let spec = super::spec_of(case);
    let src = super::build_under_test(case, &spec, obs);
    for round in 0..2 {
      for columns in [true, false] {
        for final_source in [false, true] {
          let rec = record(&src, &map_options(columns, final_source));
          obs.count("streams_with_retained_borrows", 1);
          for e in &rec.events {
            if let Ev::Chunk { utf8_ok, seg, .. } = e {
              obs.count("retained_chunks_read_back", 1);
              if !utf8_ok {
                obs.fail("chunk_invalid_utf8", format!("round {round} columns={columns} final_source={final_source}: chunk at {}:{}", seg.gl, seg.gc));
              }
            }
          }
        }
        if let Some(m) = src.map(&MapOptions::new(columns)) {
          obs.count("maps_built", 1);
          if !m.mappings().is_ascii() {
            obs.fail("mappings_not_ascii", m.mappings().to_string());
          }
        }
      }
    }
    let _ = src.rope().to_string();
    spec.walk(&mut |s| obs.class(s.kind()));
  }
  let after = rspack_sources::verif::unsafe_hits();
  let sites = before.iter().zip(&after).filter(|(b, a)| a > b).count();
  if sites >= 3 {
    obs.nontrivial();
  }
}

// ---------------------------------------------------------------------------
// Miri-sized variant: same oracles, tiny inputs (Miri costs ~4 orders of
// magnitude), so that a few hundred cases fit into a minute on 16 cores.

pub fn def_miri() -> PropDef {
  PropDef {
    id: "C19M",
    gen: gen_miri,
    check: check_miri,
    panic_policy: PanicPolicy::UnsafeOnly,
    rule: "Miri-sized: rope programs of depth <= 2 (all slice ranges for ropes of <= 6 bytes, lines, char_indices, starts_with / == against re-chunked partners) and hostile source trees of depth <= 2 with texts <= 10 bytes, streamed in all four modes with retained borrows, a second stream (cache replay) and map(); non-trivial = the case reached >= 2 distinct unsafe sites",
    cases: |t| match t {
      Tier::Quick => 640,
      Tier::Thorough => 12_800,
    },
  }
}

fn gen_miri(rng: &mut Rng, _tier: Tier) -> Value {
  if rng.chance(1, 2) {
    // small rope program: reuse the C16 generator at low depth
    let mut r2 = Rng::new(rng.next_u64());
    let v = (super::c16::def().gen)(&mut r2, Tier::Quick);
    return json!({ "prog": v["prog"], "light": true });
  }
  let mut cfg = GenCfg::hostile(rng.range(1, 2));
  cfg.max_text = 10;
  cfg.max_width = 3;
  cfg.max_ops = 3;
  cfg.reversed_ops = true;
  json!({ "spec": gen_case(rng, &cfg), "share_instances": rng.chance(1, 2) })
}

fn check_miri(case: &Value, obs: &mut Obs) {
  use rspack_sources::Rope;
  let before = rspack_sources::verif::unsafe_hits();
  if case.get("prog").is_some() {
    obs.class("rope_program");
    let prog: super::c16::Prog = serde_json::from_value(case["prog"].clone()).unwrap();
    let (r, m) = super::c16::eval(&prog);
    obs.count("ropes", 1);
    // the answers are compared with the model in C16; here they are only
    // computed (under Miri) and a disagreement is counted, not reported: a
    // wrong but memory-safe answer does not violate C19
    let mut inner = Obs::new();
    if r.to_string() != m || r.len() != m.len() {
      inner.fail("rope_vs_model", String::new());
    }
    let n = m.len().min(6);
    for s in 0..=n {
      for e in s..=n {
        let got = r.get_byte_slice(s..e).map(|x| x.to_string());
        if got.as_deref() != m.get(s..e) {
          inner.fail("rope_slice", String::new());
        }
      }
    }
    if m.len() <= 6 {
      super::c16::bound_kinds(&r, &m, "rope", &mut inner);
    }
    for l in r.lines() {
      if std::str::from_utf8(&l.to_bytes()).is_err() {
        obs.fail("rope_invalid_utf8", format!("line of {:?}", case["prog"]));
      }
    }
    if std::str::from_utf8(&r.to_bytes()).is_err() {
      obs.fail("rope_invalid_utf8", format!("{:?}", case["prog"]));
    }
    let ci = r.char_indices().count();
    if ci != m.chars().count() {
      inner.fail("rope_char_indices", String::new());
    }
    let half = m.char_indices().nth(m.chars().count() / 2).map_or(0, |(i, _)| i);
    let other = Rope::from_iter([&m[..half], &m[half..]]);
    if !r.starts_with(&other) || r != other {
      inner.fail("rope_binary", String::new());
    }
    for i in 0..m.len().min(8) {
      let _ = r.get_byte(i);
    }
    if !inner.violations.is_empty() {
      obs.count("model_disagreements_left_to_C16", inner.violations.len() as u64);
    }
  } else {
    obs.class("source_tree");
    let spec = super::spec_of(case);
    let src = super::build_under_test(case, &spec, obs);
    for columns in [true, false] {
      for final_source in [false, true] {
        let rec = record(&src, &map_options(columns, final_source));
        obs.count("streams_with_retained_borrows", 1);
        for e in &rec.events {
          if let Ev::Chunk { utf8_ok, .. } = e {
            obs.count("retained_chunks_read_back", 1);
            if !utf8_ok {
              obs.fail("chunk_invalid_utf8", "chunk".to_string());
            }
          }
        }
      }
      let _ = src.map(&MapOptions::new(columns));
      // warm path
      let _ = record(&src, &MapOptions::new(columns));
    }
    spec.walk(&mut |s| obs.class(s.kind()));
  }
  let after = rspack_sources::verif::unsafe_hits();
  if before.iter().zip(&after).filter(|(b, a)| a > b).count() >= 2 {
    obs.nontrivial();
  }
}
