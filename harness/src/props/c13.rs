//! C13 — composition laws: nesting, neutral elements and wrappers change nothing.

use rspack_sources::{BoxSource, MapOptions};
use serde_json::{json, Value};

use super::{PanicPolicy, PropDef, Tier};
use crate::{
  gen::{gen_tree, new_pool, GenCfg},
  model::attr::{attr_lines_of_map, attr_of_map, At},
  obs::Obs,
  rng::Rng,
  spec::{build_box, How, Op, Spec},
};

pub fn def() -> PropDef {
  PropDef {
    id: "C13",
    gen,
    check,
    panic_policy: PanicPolicy::Count,
    rule: "random triples (A,B,C) of ASCII source trees with consistent leaf maps; for each triple 15 differently built trees (two of them CachedSource wrappers with a history: cache filled by streaming, or by an earlier map() of the enclosing ConcatSource) are compared pairwise-with-reference on text and on the attribution of every character through map() (file, line, column, name; file and line for columns=false): flat vs typed-nested vs boxed-nested vs added-later concatenation, single-child concat, neutral empty sources, ReplaceSource without / with only empty replacements, CachedSource, boxing; non-trivial = the reference tree has >= 1 mapped and >= 1 unmapped character; distinct = case fingerprint",
    cases: |t| match t {
      Tier::Quick => 40_000,
      Tier::Thorough => 500_000,
    },
  }
}

fn gen(rng: &mut Rng, tier: Tier) -> Value {
  let depth = match tier {
    Tier::Quick => rng.range(1, 2),
    Tier::Thorough => rng.range(1, 3),
  };
  let mut cfg = GenCfg::ascii_consistent(depth);
  cfg.max_text = if rng.chance(1, 2) { 12 } else { 30 };
  let mut pool = new_pool(rng, &cfg);
  let a = gen_tree(rng, &cfg, &mut pool, 0, false);
  let b = gen_tree(rng, &cfg, &mut pool, 0, false);
  let c = gen_tree(rng, &cfg, &mut pool, 0, false);
  // positions of empty insertions for the ReplaceSource law
  let la = a.model_text().len() as u32;
  let empties: Vec<u32> = (0..rng.range(1, 3))
    .map(|_| match rng.below(4) {
      0 => 0,
      1 => la,
      2 => la + 3,
      _ => rng.below(la as usize + 1) as u32,
    })
    .collect();
  json!({ "a": a, "b": b, "c": c, "empties": empties })
}

struct View {
  text: String,
  full: Result<Vec<Vec<At>>, String>,
  lines: Result<Vec<Option<(String, u32)>>, String>,
}

fn view(src: &BoxSource) -> View {
  use rspack_sources::Source;
  let text = src.source().to_string();
  let m1 = src.map(&MapOptions::new(true));
  let m0 = src.map(&MapOptions::new(false));
  View {
    full: attr_of_map(&text, m1.as_ref()),
    lines: attr_lines_of_map(&text, m0.as_ref()),
    text,
  }
}

/// Calls made on the variant before it is compared (the law says a
/// CachedSource behaves like the wrapped source, whatever was asked before).
fn warm_up(law: &str, src: &BoxSource, obs: &mut Obs) {
  use rspack_sources::Source;
  match law {
    "cached_after_stream" => {
      for columns in [true, false] {
        let _ = crate::record::record(src, &MapOptions::new(columns));
      }
      obs.count("warm_up_calls", 2);
    }
    "cached_inside_concat_second_map" => {
      let _ = src.map(&MapOptions::new(true));
      let _ = src.map(&MapOptions::new(false));
      obs.count("warm_up_calls", 2);
    }
    _ => {}
  }
}

fn strip_col(a: &At) -> At {
  match a {
    At::Un => At::Un,
    At::Map {
      file, line, name, ..
    } => At::Map {
      file: file.clone(),
      content: None,
      line: *line,
      col: 0,
      name: name.clone(),
    },
  }
}

fn compare(law: &str, reference: &View, other: &View, obs: &mut Obs, ctx: &dyn Fn() -> String) {
  obs.count("law_instances", 1);
  if reference.text != other.text {
    obs.fail(&format!("law:{law}:text"), format!("{:?} vs {:?}; {}", reference.text, other.text, ctx()));
    return;
  }
  match (&reference.full, &other.full) {
    (Ok(a), Ok(b)) => {
      obs.count("positions_compared", a.iter().map(|l| l.len() as u64).sum());
      let mut reported_fl = false;
      let mut reported_col = false;
      for (li, (la, lb)) in a.iter().zip(b).enumerate() {
        for (c, (x, y)) in la.iter().zip(lb).enumerate() {
          let (x, y) = (x.without_content(), y.without_content());
          if x != y {
            if strip_col(&x) != strip_col(&y) {
              if !reported_fl {
                obs.fail(&format!("law:{law}:attr_file_line_name"), format!("at {}:{}: {:?} vs {:?}; {}", li + 1, c, x, y, ctx()));
                reported_fl = true;
              }
            } else if !reported_col {
              obs.fail(&format!("law:{law}:attr_column"), format!("at {}:{}: {:?} vs {:?}; {}", li + 1, c, x, y, ctx()));
              reported_col = true;
            }
          }
        }
      }
    }
    (Err(e), _) | (_, Err(e)) => obs.fail(&format!("law:{law}:map_undecodable"), e.clone()),
  }
  match (&reference.lines, &other.lines) {
    (Ok(a), Ok(b)) => {
      if a != b {
        let i = a.iter().zip(b).position(|(x, y)| x != y);
        obs.fail(&format!("law:{law}:attr_lines"), format!("columns=false line {:?}: {:?} vs {:?}; {}", i.map(|i| i + 1), i.map(|i| &a[i]), i.map(|i| &b[i]), ctx()));
      }
    }
    (Err(e), _) | (_, Err(e)) => obs.fail(&format!("law:{law}:map_undecodable"), e.clone()),
  }
}

fn cat(children: Vec<Spec>, how: How) -> Spec {
  Spec::Concat { children, how }
}

pub fn variants(a: &Spec, b: &Spec, c: &Spec, empties: &[u32]) -> Vec<(&'static str, Spec, Spec)> {
  let (a, b, c) = (a.clone(), b.clone(), c.clone());
  let flat = cat(vec![a.clone(), b.clone(), c.clone()], How::NewBoxed);
  let empty_ops: Vec<Op> = empties
    .iter()
    .map(|p| Op {
      start: *p,
      end: *p,
      content: String::new(),
      name: None,
      enforce: 1,
      plain_api: true,
      observe_before: false,
    })
    .collect();
  vec![
    ("typed_nested_left", flat.clone(), cat(vec![cat(vec![a.clone(), b.clone()], How::NewBoxed), c.clone()], How::Add)),
    ("typed_nested_right", flat.clone(), cat(vec![a.clone(), cat(vec![b.clone(), c.clone()], How::NewBoxed)], How::Add)),
    ("boxed_nested_left", flat.clone(), cat(vec![cat(vec![a.clone(), b.clone()], How::NewBoxed), c.clone()], How::NewBoxed)),
    ("boxed_nested_right", flat.clone(), cat(vec![a.clone(), cat(vec![b.clone(), c.clone()], How::NewBoxed)], How::NewBoxed)),
    ("new_typed", flat.clone(), cat(vec![cat(vec![a.clone()], How::NewBoxed), cat(vec![b.clone(), c.clone()], How::Add)], How::NewTyped)),
    ("added_later", flat.clone(), cat(vec![a.clone(), b.clone(), c.clone()], How::Add)),
    ("single_child", a.clone(), cat(vec![a.clone()], How::NewBoxed)),
    ("empty_neighbours", a.clone(), cat(vec![Spec::raw(""), a.clone(), cat(vec![], How::NewBoxed), Spec::RawString { text: String::new() }], How::NewBoxed)),
    ("empty_between", cat(vec![a.clone(), b.clone()], How::NewBoxed), cat(vec![a.clone(), Spec::raw(""), b.clone()], How::NewBoxed)),
    ("replace_no_ops", a.clone(), Spec::replace(a.clone(), vec![])),
    ("replace_empty_ops", a.clone(), Spec::replace(a.clone(), empty_ops)),
    ("cached", flat.clone(), Spec::cached(flat.clone())),
    ("boxed", flat.clone(), Spec::boxed(flat.clone())),
    // the wrapper with a history: its cache filled by streaming / by an
    // enclosing map() before it is asked (see `warm_up`)
    ("cached_after_stream", flat.clone(), Spec::cached(flat.clone())),
    ("cached_inside_concat_second_map", flat.clone(), cat(vec![Spec::cached(cat(vec![a.clone(), b.clone()], How::NewBoxed)), c.clone()], How::NewBoxed)),
  ]
}

fn check(case: &Value, obs: &mut Obs) {
  let a: Spec = serde_json::from_value(case["a"].clone()).unwrap();
  let b: Spec = serde_json::from_value(case["b"].clone()).unwrap();
  let c: Spec = serde_json::from_value(case["c"].clone()).unwrap();
  let empties: Vec<u32> = serde_json::from_value(case["empties"].clone()).unwrap_or_default();
  let only = case.get("only_law").and_then(|v| v.as_str());
  let mut mapped = false;
  let mut unmapped = false;
  for (law, reference, other) in variants(&a, &b, &c, &empties) {
    if only.is_some_and(|o| o != law) {
      continue;
    }
    if law.starts_with("cached_") && law != "cached" && [&a, &b, &c].iter().any(|s| s.has_cached_under_replace()) {
      // answers of a CachedSource beneath a ReplaceSource depend on the call
      // history (known finding under C03): no history-laden law instance
      continue;
    }
    let r = view(&build_box(&reference));
    let o = build_box(&other);
    warm_up(law, &o, obs);
    let o = view(&o);
    if let Ok(f) = &r.full {
      for x in f.iter().flatten() {
        if matches!(x, At::Un) {
          unmapped = true
        } else {
          mapped = true
        }
      }
    }
    compare(law, &r, &o, obs, &|| {
      format!("reference {} vs variant {}", serde_json::to_string(&reference).unwrap(), serde_json::to_string(&other).unwrap())
    });
  }
  for s in [&a, &b, &c] {
    s.walk(&mut |s| obs.class(s.kind()));
  }
  if mapped && unmapped {
    obs.nontrivial();
  }
}

/// Known finding: with only empty replacements a ReplaceSource still splits
/// the chunk it falls into and, where the recorded original content matches,
/// continues with an advanced original column. Every difference to the wrapped
/// source must be of exactly that kind: same file, line and name, and a column
/// greater than the wrapped source's (a finer, still correct, answer).
pub fn trig_replace_empty_ops_finer_column(case: &Value, clause: &str, _d: &str) -> bool {
  if clause != "law:replace_empty_ops:attr_column" {
    return false;
  }
  let Ok(a) = serde_json::from_value::<Spec>(case["a"].clone()) else {
    return false;
  };
  let empties: Vec<u32> = serde_json::from_value(case["empties"].clone()).unwrap_or_default();
  let dummy = Spec::raw("");
  let Some((_, reference, other)) = variants(&a, &dummy, &dummy, &empties)
    .into_iter()
    .find(|(l, _, _)| *l == "replace_empty_ops")
  else {
    return false;
  };
  let r = view(&build_box(&reference));
  let o = view(&build_box(&other));
  let (Ok(ra), Ok(oa)) = (&r.full, &o.full) else {
    return false;
  };
  if r.text != o.text || ra.len() != oa.len() {
    return false;
  }
  let mut diffs = 0;
  for (la, lb) in ra.iter().zip(oa) {
    if la.len() != lb.len() {
      return false;
    }
    for (x, y) in la.iter().zip(lb) {
      if x.without_content() == y.without_content() {
        continue;
      }
      match (x, y) {
        (
          At::Map { file: f1, line: l1, col: c1, name: n1, .. },
          At::Map { file: f2, line: l2, col: c2, name: n2, .. },
        ) if f1 == f2 && l1 == l2 && n1 == n2 && c2 > c1 => diffs += 1,
        _ => return false,
      }
    }
  }
  diffs > 0
}
