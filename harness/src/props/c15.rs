//! C15 — SourceMap JSON serialisation is valid and round-trips.

use rspack_sources::SourceMap;
use serde::{Deserialize, Serialize};
use serde_json::{json, Value};

use super::{PanicPolicy, PropDef, Tier};
use crate::{obs::Obs, rng::Rng};

pub fn def() -> PropDef {
  PropDef {
    id: "C15",
    gen,
    check,
    panic_policy: PanicPolicy::Violation,
    rule: "random SourceMap values whose strings mix ASCII, quotes, backslashes, C0 controls, DEL, U+2028/2029, 2-4 byte characters and astral characters; optional file / sourceRoot / debugId present or absent; sourcesContent absent, all empty, or partly empty; to_writer also into writers that take 1-7 / 5 (with interrupts) / 4096 bytes per call; plus hand-spelled documents (via an independent serialiser) with null entries, missing arrays, shuffled keys, \\u escapes and surrogate pairs; to_json / to_writer output is parsed by serde_json (independent of simd-json) and by from_json / from_slice / from_reader; non-trivial = the value has a string needing an escape or a multi-byte character and >= 1 optional field present; distinct = case fingerprint",
    cases: |t| match t {
      Tier::Quick => 150_000,
      Tier::Thorough => 2_000_000,
    },
  }
}

/// Accepts at most `limit` bytes per `write` call; with `interrupt` every
/// third call fails with `ErrorKind::Interrupted` (which `write_all` retries).
struct ShortWriter {
  out: Vec<u8>,
  limit: usize,
  interrupt: bool,
  calls: u64,
}

impl std::io::Write for ShortWriter {
  fn write(&mut self, buf: &[u8]) -> std::io::Result<usize> {
    self.calls += 1;
    if self.interrupt && self.calls % 3 == 0 {
      return Err(std::io::Error::new(std::io::ErrorKind::Interrupted, "interrupted"));
    }
    let n = buf.len().min(self.limit);
    self.out.extend_from_slice(&buf[..n]);
    Ok(n)
  }
  fn flush(&mut self) -> std::io::Result<()> {
    Ok(())
  }
}

#[derive(Clone, Debug, Serialize, Deserialize, PartialEq)]
struct MapVal {
  mappings: String,
  sources: Vec<String>,
  contents: Vec<String>,
  names: Vec<String>,
  file: Option<String>,
  source_root: Option<String>,
  debug_id: Option<String>,
}

#[derive(Clone, Debug, Serialize, Deserialize)]
struct Doc {
  /// same shape, but array entries may be null and arrays may be missing
  mappings: String,
  sources: Option<Vec<Option<String>>>,
  contents: Option<Vec<Option<String>>>,
  names: Option<Vec<Option<String>>>,
  file: Option<String>,
  source_root: Option<String>,
  debug_id: Option<String>,
  key_order: Vec<usize>,
  escape_unicode: bool,
  with_version: bool,
  pretty: bool,
}

const SPECIAL: &[&str] = &[
  "\"", "\\", "/", "\u{8}", "\u{c}", "\n", "\r", "\t", "\u{0}", "\u{1}", "\u{1f}", "\u{7f}", "\u{2028}", "\u{2029}",
  "é", "ü", "→", "中", "😀", "𝒳", "\u{10ffff}", "\u{fffd}", "\\u0041", "\\n", "</script>", "'", "{", "}", "[", "]", ":", ",",
];

fn gen_string(rng: &mut Rng) -> String {
  let n = match rng.below(6) {
    0 => 0,
    1 => 1,
    _ => rng.range(1, 12),
  };
  let mut s = String::new();
  for _ in 0..n {
    if rng.chance(1, 3) {
      s.push_str(*rng.pick(SPECIAL));
    } else {
      s.push_str(*rng.pick(&["a", "b", "src/", "x.js", " ", "0", "webpack://"]));
    }
  }
  s
}

fn gen_vec(rng: &mut Rng) -> Vec<String> {
  (0..rng.below(4)).map(|_| gen_string(rng)).collect()
}

fn gen_mapval(rng: &mut Rng) -> MapVal {
  let sources = gen_vec(rng);
  let contents = match rng.below(4) {
    0 => vec![],
    1 => sources.iter().map(|_| String::new()).collect(),
    2 => sources.iter().map(|_| if rng.chance(1, 2) { String::new() } else { gen_string(rng) }).collect(),
    _ => gen_vec(rng),
  };
  MapVal {
    mappings: rng.pick(&["", "AAAA", ";;", "AAAA,CAAC;AACA", "A,B"]).to_string(),
    sources,
    contents,
    names: gen_vec(rng),
    file: rng.chance(1, 2).then(|| gen_string(rng)),
    source_root: rng.chance(1, 2).then(|| gen_string(rng)),
    debug_id: rng.chance(1, 3).then(|| gen_string(rng)),
  }
}

fn nullable(rng: &mut Rng, v: Vec<String>) -> Option<Vec<Option<String>>> {
  if rng.chance(1, 5) {
    return None;
  }
  Some(v.into_iter().map(|s| if rng.chance(1, 4) { None } else { Some(s) }).collect())
}

fn gen(rng: &mut Rng, _tier: Tier) -> Value {
  if rng.chance(3, 5) {
    json!({ "value": gen_mapval(rng) })
  } else {
    let v = gen_mapval(rng);
    let mut order: Vec<usize> = (0..8).collect();
    for i in (1..order.len()).rev() {
      let j = rng.below(i + 1);
      order.swap(i, j);
    }
    let d = Doc {
      mappings: v.mappings,
      sources: nullable(rng, v.sources),
      contents: nullable(rng, v.contents),
      names: nullable(rng, v.names),
      file: v.file,
      source_root: v.source_root,
      debug_id: v.debug_id,
      key_order: order,
      escape_unicode: rng.chance(1, 2),
      with_version: rng.chance(3, 4),
      pretty: rng.chance(1, 3),
    };
    json!({ "doc": d })
  }
}

/// A reader that returns at most `step` bytes per call.
struct Dribble<'a> {
  data: &'a [u8],
  pos: usize,
  step: usize,
}

impl std::io::Read for Dribble<'_> {
  fn read(&mut self, buf: &mut [u8]) -> std::io::Result<usize> {
    let n = self.step.min(buf.len()).min(self.data.len() - self.pos);
    buf[..n].copy_from_slice(&self.data[self.pos..self.pos + n]);
    self.pos += n;
    Ok(n)
  }
}

fn build(v: &MapVal) -> SourceMap {
  let mut m = SourceMap::new(v.mappings.clone(), v.sources.clone(), v.contents.clone(), v.names.clone());
  m.set_file(v.file.clone());
  m.set_source_root(v.source_root.clone());
  m.set_debug_id(v.debug_id.clone());
  m
}

fn fields(m: &SourceMap) -> MapVal {
  MapVal {
    mappings: m.mappings().to_string(),
    // through the indexed accessors (they must agree with the slices)
    sources: (0..m.sources().len() + 1).map_while(|i| m.get_source(i).map(|s| s.to_string())).collect(),
    contents: m.sources_content().to_vec(),
    names: (0..m.names().len() + 1).map_while(|i| m.get_name(i).map(|s| s.to_string())).collect(),
    file: m.file().map(|s| s.to_string()),
    source_root: m.source_root().map(|s| s.to_string()),
    debug_id: m.get_debug_id().map(|s| s.to_string()),
  }
}

/// JSON string literal with every non-ASCII character written as \uXXXX
/// (surrogate pairs for astral characters).
fn escape_all(s: &str) -> String {
  let mut out = String::from("\"");
  for c in s.chars() {
    match c {
      '"' => out.push_str("\\\""),
      '\\' => out.push_str("\\\\"),
      c if (c as u32) < 0x20 || (c as u32) >= 0x7f => {
        let mut buf = [0u16; 2];
        for u in c.encode_utf16(&mut buf) {
          out.push_str(&format!("\\u{:04x}", u));
        }
      }
      c => out.push(c),
    }
  }
  out.push('"');
  out
}

fn lit(s: &str, escape: bool) -> String {
  if escape {
    escape_all(s)
  } else {
    serde_json::to_string(s).unwrap()
  }
}

fn arr(v: &Option<Vec<Option<String>>>, escape: bool) -> Option<String> {
  v.as_ref().map(|v| {
    format!(
      "[{}]",
      v.iter()
        .map(|e| match e {
          Some(s) => lit(s, escape),
          None => "null".to_string(),
        })
        .collect::<Vec<_>>()
        .join(",")
    )
  })
}

fn spell(d: &Doc) -> String {
  let e = d.escape_unicode;
  let members: Vec<Option<(&str, String)>> = vec![
    Some(("mappings", lit(&d.mappings, e))),
    arr(&d.sources, e).map(|a| ("sources", a)),
    arr(&d.contents, e).map(|a| ("sourcesContent", a)),
    arr(&d.names, e).map(|a| ("names", a)),
    d.file.as_ref().map(|s| ("file", lit(s, e))),
    d.source_root.as_ref().map(|s| ("sourceRoot", lit(s, e))),
    d.debug_id.as_ref().map(|s| ("debugId", lit(s, e))),
    d.with_version.then(|| ("version", "3".to_string())),
  ];
  let sep = if d.pretty { ",\n  " } else { "," };
  let body: Vec<String> = d
    .key_order
    .iter()
    .filter_map(|i| members.get(*i).cloned().flatten())
    .map(|(k, v)| format!("\"{k}\":{}{v}", if d.pretty { " " } else { "" }))
    .collect();
  if d.pretty {
    format!("{{\n  {}\n}}\n", body.join(sep))
  } else {
    format!("{{{}}}", body.join(sep))
  }
}

fn all_empty(v: &[String]) -> bool {
  v.iter().all(|s| s.is_empty())
}

fn check_value(v: &MapVal, obs: &mut Obs) {
  let m = build(v);
  let json = match m.clone().to_json() {
    Ok(j) => j,
    Err(e) => {
      obs.fail("to_json_error", format!("{e} for {v:?}"));
      return;
    }
  };
  obs.count("values_serialised", 1);
  let mut w = Vec::new();
  match m.clone().to_writer(&mut w) {
    Ok(()) => {
      if w != json.as_bytes() {
        obs.fail("to_writer_differs", format!("to_writer {:?} vs to_json {json:?}", String::from_utf8_lossy(&w)));
      }
    }
    Err(e) => obs.fail("to_writer_error", format!("{e}")),
  }
  // a writer that takes only a few bytes per call (pipe, socket, fixed
  // buffer) and one that is interrupted now and then: both legal `io::Write`
  // behaviours, the document must arrive complete all the same
  for (limit, interrupt) in [(1 + json.len() % 7, false), (5, true), (4096, false)] {
    let mut sw = ShortWriter { out: Vec::new(), limit, interrupt, calls: 0 };
    match m.clone().to_writer(&mut sw) {
      Ok(()) => {
        obs.count("short_writer_calls", sw.calls);
        if sw.out != json.as_bytes() {
          obs.fail(
            "to_writer_short_writes",
            format!("a writer taking <= {limit} bytes per call (interrupts: {interrupt}) received {} of {} bytes: {:?}", sw.out.len(), json.len(), String::from_utf8_lossy(&sw.out)),
          );
        }
      }
      Err(e) => obs.fail("to_writer_error", format!("short writer: {e}")),
    }
  }
  // independent parser
  match serde_json::from_str::<Value>(&json) {
    Err(e) => {
      obs.fail("invalid_json", format!("serde_json rejects {json:?}: {e}"));
      return;
    }
    Ok(doc) => {
      let Some(o) = doc.as_object() else {
        obs.fail("not_an_object", json.clone());
        return;
      };
      let strs = |key: &str| -> Option<Vec<String>> {
        o.get(key)?.as_array().map(|a| a.iter().map(|x| x.as_str().unwrap_or("<non-string>").to_string()).collect())
      };
      let st = |key: &str| -> Option<String> { o.get(key).and_then(|x| x.as_str()).map(|s| s.to_string()) };
      if o.get("version") != Some(&json!(3)) {
        obs.fail("version_not_3", json.clone());
      }
      if st("mappings").as_deref() != Some(&v.mappings) {
        obs.fail("field_mappings", format!("{json:?} vs {:?}", v.mappings));
      }
      if strs("sources") != Some(v.sources.clone()) {
        obs.fail("field_sources", format!("{json:?} vs {:?}", v.sources));
      }
      if strs("names") != Some(v.names.clone()) {
        obs.fail("field_names", format!("{json:?} vs {:?}", v.names));
      }
      let exp_content = if all_empty(&v.contents) { None } else { Some(v.contents.clone()) };
      if strs("sourcesContent") != exp_content {
        obs.fail("field_sources_content", format!("{json:?} vs {:?} (omitted exactly when all entries are empty)", v.contents));
      }
      if st("file") != v.file || o.contains_key("file") != v.file.is_some() {
        obs.fail("field_file", format!("{json:?} vs {:?}", v.file));
      }
      if st("sourceRoot") != v.source_root || o.contains_key("sourceRoot") != v.source_root.is_some() {
        obs.fail("field_source_root", format!("{json:?} vs {:?}", v.source_root));
      }
      if st("debugId") != v.debug_id || o.contains_key("debugId") != v.debug_id.is_some() {
        obs.fail("field_debug_id", format!("{json:?} vs {:?}", v.debug_id));
      }
    }
  }
  // round trip through the three parsers
  let mut expected = v.clone();
  if all_empty(&v.contents) {
    expected.contents = vec![];
  }
  let parsers: Vec<(&str, Result<SourceMap, String>)> = vec![
    ("from_json", SourceMap::from_json(&json).map_err(|e| e.to_string())),
    ("from_slice", SourceMap::from_slice(json.as_bytes()).map_err(|e| e.to_string())),
    ("from_reader", SourceMap::from_reader(json.as_bytes()).map_err(|e| e.to_string())),
    // readers that hand the document out in pieces (short reads are legal for io::Read)
    ("from_reader(1 byte per read)", SourceMap::from_reader(Dribble { data: json.as_bytes(), pos: 0, step: 1 }).map_err(|e| e.to_string())),
    ("from_reader(7 bytes per read)", SourceMap::from_reader(Dribble { data: json.as_bytes(), pos: 0, step: 7 }).map_err(|e| e.to_string())),
    ("from_reader(two halves chained)", {
      use std::io::Read;
      let (a, b) = json.as_bytes().split_at(json.len() / 2);
      SourceMap::from_reader(a.chain(b)).map_err(|e| e.to_string())
    }),
    ("from_reader(small BufReader)", SourceMap::from_reader(std::io::BufReader::with_capacity(16, json.as_bytes())).map_err(|e| e.to_string())),
  ];
  for (name, r) in parsers {
    obs.count("parses", 1);
    match r {
      Err(e) => obs.fail("round_trip_parse_error", format!("{name} rejects the crate's own output {json:?}: {e}")),
      Ok(back) => {
        if fields(&back) != expected {
          obs.fail("round_trip_value", format!("{name}: {:?} after the round trip, expected {:?}; json {json:?}", fields(&back), expected));
        }
        derived(&back, &expected, name, obs);
      }
    }
  }
  derived(&m, v, "constructed", obs);
  // serialising consumed clones: the value itself still says the same
  if fields(&m) != *v || m.clone().to_json().ok().as_deref() != Some(json.as_str()) {
    obs.fail("value_changed_by_serialising", format!("{:?} after to_json / to_writer, was {:?}", fields(&m), v));
  }
}

/// Values derived from `m` by clone() and one setter each (they share every
/// untouched table with `m`): the serialised document must show exactly the
/// changed field, and `m` must stay as it was.
fn derived(m: &SourceMap, base: &MapVal, origin: &str, obs: &mut Obs) {
  let variants: Vec<(&str, Box<dyn Fn(&mut SourceMap, &mut MapVal)>)> = vec![
    ("set_file", Box::new(|m, v| {
      let f = if v.file.as_deref() == Some("x.js") { None } else { Some("x.js".to_string()) };
      m.set_file(f.clone());
      v.file = f;
    })),
    ("set_source_root", Box::new(|m, v| {
      let f = if v.source_root.is_some() { None } else { Some("root/".to_string()) };
      m.set_source_root(f.clone());
      v.source_root = f;
    })),
    ("set_debug_id", Box::new(|m, v| {
      let f = if v.debug_id.is_some() { None } else { Some("0123-ab".to_string()) };
      m.set_debug_id(f.clone());
      v.debug_id = f;
    })),
    ("set_sources", Box::new(|m, v| {
      let mut s = v.sources.clone();
      s.push("added\u{2028}.js".to_string());
      m.set_sources(s.clone());
      v.sources = s;
    })),
    ("set_names", Box::new(|m, v| {
      let s = vec!["only".to_string()];
      m.set_names(s.clone());
      v.names = s;
    })),
    ("set_sources_content", Box::new(|m, v| {
      let s = vec!["c\"\n".to_string()];
      m.set_sources_content(s.clone());
      v.contents = s;
    })),
  ];
  for (what, f) in variants {
    let mut d = m.clone();
    let mut exp = base.clone();
    f(&mut d, &mut exp);
    obs.count("derived_values", 1);
    if fields(&d) != exp {
      obs.fail("derived_value_fields", format!("{origin} + clone + {what}: {:?}, expected {:?}", fields(&d), exp));
      continue;
    }
    if fields(m) != *base {
      obs.fail("setter_on_clone_changed_the_original", format!("{origin} + clone + {what}: original now {:?}, was {:?}", fields(m), base));
    }
    match d.clone().to_json() {
      Err(e) => obs.fail("to_json_error", format!("{e} for {exp:?}")),
      Ok(j) => {
        let mut w = Vec::new();
        if d.clone().to_writer(&mut w).is_err() || w != j.as_bytes() {
          obs.fail("to_writer_differs", format!("{origin} + clone + {what}: to_writer {:?} vs to_json {j:?}", String::from_utf8_lossy(&w)));
        }
        match SourceMap::from_json(&j) {
          Err(e) => obs.fail("round_trip_parse_error", format!("{origin} + clone + {what}: {j:?}: {e}")),
          Ok(back) => {
            let mut e2 = exp.clone();
            if all_empty(&e2.contents) {
              e2.contents = vec![];
            }
            if fields(&back) != e2 {
              obs.fail("round_trip_value", format!("{origin} + clone + {what}: {:?} after the round trip, expected {:?}; json {j:?}", fields(&back), e2));
            }
          }
        }
      }
    }
  }
}

fn check_doc(d: &Doc, obs: &mut Obs) {
  let text = spell(d);
  // the spelling itself must be valid JSON for the independent parser
  if let Err(e) = serde_json::from_str::<Value>(&text) {
    obs.inconclusive.push(format!("harness spelled invalid JSON {text:?}: {e}"));
    return;
  }
  let un = |v: &Option<Vec<Option<String>>>| -> Vec<String> {
    v.clone().unwrap_or_default().into_iter().map(|e| e.unwrap_or_default()).collect()
  };
  let expected = MapVal {
    mappings: d.mappings.clone(),
    sources: un(&d.sources),
    contents: un(&d.contents),
    names: un(&d.names),
    file: d.file.clone(),
    source_root: d.source_root.clone(),
    debug_id: d.debug_id.clone(),
  };
  obs.count("documents_parsed", 1);
  let parsers: Vec<(&str, Result<SourceMap, String>)> = vec![
    ("from_json", SourceMap::from_json(&text).map_err(|e| e.to_string())),
    ("from_slice", SourceMap::from_slice(text.as_bytes()).map_err(|e| e.to_string())),
    ("from_reader", SourceMap::from_reader(text.as_bytes()).map_err(|e| e.to_string())),
  ];
  for (name, r) in parsers {
    obs.count("parses", 1);
    match r {
      Err(e) => obs.fail("document_rejected", format!("{name} rejects {text:?}: {e}")),
      Ok(m) => {
        if fields(&m) != expected {
          obs.fail("document_value", format!("{name}: {:?}, expected {:?}; document {text:?}", fields(&m), expected));
        }
      }
    }
  }
}

fn needs_escape(s: &str) -> bool {
  s.chars().any(|c| (c as u32) < 0x20 || c == '"' || c == '\\' || !c.is_ascii())
}

fn check(case: &Value, obs: &mut Obs) {
  if let Some(v) = case.get("value") {
    let v: MapVal = serde_json::from_value(v.clone()).unwrap();
    check_value(&v, obs);
    obs.class("value_round_trip");
    let strings: Vec<&String> = v.sources.iter().chain(&v.contents).chain(&v.names).chain(v.file.iter()).chain(v.source_root.iter()).chain(v.debug_id.iter()).collect();
    if all_empty(&v.contents) {
      obs.class(if v.contents.is_empty() { "contents_absent" } else { "contents_all_empty" });
    }
    if strings.iter().any(|s| needs_escape(s)) && (v.file.is_some() || v.source_root.is_some() || v.debug_id.is_some()) {
      obs.nontrivial();
    }
  } else {
    let d: Doc = serde_json::from_value(case["doc"].clone()).unwrap();
    check_doc(&d, obs);
    obs.class("spelled_document");
    if d.escape_unicode {
      obs.class("unicode_escapes");
    }
    let has_null = [&d.sources, &d.contents, &d.names].iter().any(|v| v.as_ref().is_some_and(|v| v.iter().any(|e| e.is_none())));
    if has_null {
      obs.class("null_entries");
    }
    if d.sources.is_none() || d.names.is_none() || d.contents.is_none() {
      obs.class("missing_arrays");
    }
    if has_null || d.escape_unicode {
      obs.nontrivial();
    }
  }
}
