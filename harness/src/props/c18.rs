//! C18 — concurrent readers get sequential answers; cached maps are never replaced.

use std::{
  hash::{Hash, Hasher},
  sync::{Arc, Mutex},
};

use rspack_sources::{
  stream_chunks::{GeneratedInfo, OnChunk, OnName, OnSource, StreamChunks},
  BoxSource, MapOptions, Rope, Source, SourceMap,
};
use serde::{Deserialize, Serialize};
use serde_json::{json, Value};

use super::{PanicPolicy, PropDef, Tier};
use crate::{
  gen::{gen_case, GenCfg},
  model::attr::{attr_lines_of_map, attr_lines_of_stream, attr_of_map, attr_of_stream, At},
  obs::Obs,
  record::record,
  rng::Rng,
  sched::{self, RunError, Strategy},
  spec::{build_with, stable_hash, Spec},
};

// ---------------------------------------------------------------------------
// a user-defined child source whose methods are schedule points

#[derive(Clone, Debug)]
pub struct SchedSource {
  inner: BoxSource,
}

impl PartialEq for SchedSource {
  fn eq(&self, other: &Self) -> bool {
    &self.inner == &other.inner
  }
}
impl Eq for SchedSource {}
impl Hash for SchedSource {
  fn hash<H: Hasher>(&self, state: &mut H) {
    // no schedule point here: CachedSource hashes its inner source inside a
    // OnceLock initialiser, where a second thread would block for real
    self.inner.hash(state)
  }
}

impl Source for SchedSource {
  fn source(&self) -> std::borrow::Cow<str> {
    sched::point("child.source");
    self.inner.source()
  }
  fn rope(&self) -> Rope<'_> {
    sched::point("child.rope");
    self.inner.rope()
  }
  fn buffer(&self) -> std::borrow::Cow<[u8]> {
    self.inner.buffer()
  }
  fn size(&self) -> usize {
    self.inner.size()
  }
  fn map(&self, options: &MapOptions) -> Option<SourceMap> {
    sched::point("child.map");
    let m = self.inner.map(options);
    sched::point("child.map.done");
    m
  }
  fn to_writer(&self, writer: &mut dyn std::io::Write) -> std::io::Result<()> {
    self.inner.to_writer(writer)
  }
}

impl StreamChunks for SchedSource {
  fn stream_chunks<'a>(
    &'a self,
    options: &MapOptions,
    on_chunk: OnChunk<'_, 'a>,
    on_source: OnSource<'_, 'a>,
    on_name: OnName<'_, 'a>,
  ) -> GeneratedInfo {
    sched::point("child.stream");
    let r = self.inner.stream_chunks(options, on_chunk, on_source, on_name);
    sched::point("child.stream.done");
    r
  }
}

// ---------------------------------------------------------------------------

#[derive(Clone, Copy, Debug, Serialize, Deserialize, PartialEq, Eq)]
pub enum Op {
  Source,
  Map(bool),
  Stream(bool),
  Hash,
  CloneSource,
  CloneMap(bool),
  EqPrivate,
}

#[derive(Clone, Debug, Serialize, Deserialize)]
pub struct Call {
  /// index into the handle list (0 = root, then Cached / Replace nodes)
  pub target: usize,
  pub op: Op,
}

pub fn def() -> PropDef {
  PropDef {
    id: "C18",
    gen,
    check,
    panic_policy: PanicPolicy::Violation,
    rule: "2-3 threads x 1-3 calls from {source, map(c), stream(c) keeping every borrowed chunk/name/content until the outermost stream call returns, hash, clone+source, clone+map, ==} on a shared tree containing ReplaceSource (lazy sort), CachedSource and clones (cold, map-filled, stream-filled), binary leaves and composites, every leaf wrapped in a user-defined child whose methods are schedule points; real OS threads run under a token-passing scheduler that switches only at the library's guarded schedule points and child callbacks; schedules are enumerated by DFS with a pre-emption bound (completely when the tree is small) plus seeded random walks; every call's answer is compared with the same call on a private single-threaded copy, cache stores that replace a value are counted by hook, cache slots are peeked after the run; non-trivial = >= 2 distinct schedules executed and a thread was pre-empted inside the library; distinct = case fingerprint",
    cases: |t| match t {
      Tier::Quick => 1_600,
      Tier::Thorough => 32_000,
    },
  }
}

fn gen(rng: &mut Rng, tier: Tier) -> Value {
  // small trees with at least one Cached or Replace node
  let spec = loop {
    let mut cfg = GenCfg::ascii_consistent(rng.range(1, 3));
    cfg.max_text = 10;
    cfg.max_width = 3;
    cfg.max_ops = 2;
    cfg.custom_leaves = false;
    // the sequential reference must not depend on the call history (see C10)
    cfg.cached_under_replace = false;
    // binary leaves stay ASCII here: attribution over non-ASCII text depends on
    // the call history even single-threaded (known finding under C14)
    cfg.bytes_leaves = false;
    cfg.ascii = true;
    let s = gen_case(rng, &cfg);
    let interesting = s.contains(&|n| match n {
      Spec::Cached { .. } => true,
      Spec::Replace { ops, .. } => !ops.is_empty(),
      _ => false,
    });
    if interesting && s.size() <= 9 {
      break if rng.chance(1, 2) { Spec::cached(s) } else { s };
    }
  };
  let nhandles = handle_specs(&spec).len();
  let nthreads = rng.range(2, 3);
  let threads: Vec<Vec<Call>> = (0..nthreads)
    .map(|_| {
      (0..rng.range(1, if nthreads == 2 { 3 } else { 2 }))
        .map(|_| Call {
          target: if rng.chance(1, 2) { 0 } else { rng.below(nhandles) },
          op: match rng.below(12) {
            0 => Op::Source,
            1..=3 => Op::Map(rng.chance(3, 4)),
            4..=7 => Op::Stream(rng.chance(3, 4)),
            8 => Op::Hash,
            9 => Op::CloneSource,
            10 => Op::CloneMap(true),
            _ => Op::EqPrivate,
          },
        })
        .collect()
    })
    .collect();
  // warm-up calls executed single-threaded before the threads start
  let warm: Vec<Call> = (0..rng.below(3))
    .map(|_| Call {
      target: rng.below(nhandles),
      op: if rng.chance(1, 2) { Op::Stream(true) } else { Op::Map(true) },
    })
    .collect();
  let (max_schedules, max_preempt) = match tier {
    Tier::Quick => (60, 2),
    Tier::Thorough => (1500, 3),
  };
  json!({ "spec": spec, "threads": threads, "warm": warm, "max_schedules": max_schedules, "max_preempt": max_preempt, "random_walks": 8, "no_shrink": true })
}

/// Nodes a call can target: the root and every Cached / Replace node (pre-order).
fn handle_specs(spec: &Spec) -> Vec<&Spec> {
  let mut v = vec![spec];
  spec.walk(&mut |s| {
    if matches!(s, Spec::Cached { .. } | Spec::Replace { .. } | Spec::RawBytes { .. } | Spec::RawBuffer { .. }) && !std::ptr::eq(s, spec) {
      v.push(s);
    }
  });
  v
}

/// Build the shared tree: leaves wrapped in SchedSource; returns handles.
fn build_shared(spec: &Spec, sched_children: bool) -> Vec<BoxSource> {
  build_shared_with_peekers(spec, sched_children, false).0
}

fn build_shared_with_peekers(
  spec: &Spec,
  sched_children: bool,
  want_peekers: bool,
) -> (Vec<BoxSource>, Vec<crate::spec::Peeker>) {
  if want_peekers {
    *crate::spec::PEEKERS.lock().unwrap() = Some(Vec::new());
  }
  let handles: Mutex<Vec<(usize, BoxSource)>> = Mutex::new(Vec::new());
  let order: Vec<*const Spec> = handle_specs(spec).iter().map(|s| *s as *const Spec).collect();
  let root = build_with(spec, &|s, b| {
    let is_leaf = !matches!(s, Spec::Concat { .. } | Spec::Replace { .. } | Spec::Cached { .. } | Spec::Boxed { .. });
    let b: BoxSource = if is_leaf && sched_children {
      Arc::new(SchedSource { inner: b })
    } else {
      b
    };
    if let Some(i) = order.iter().position(|p| std::ptr::eq(*p, s)) {
      handles.lock().unwrap().push((i, b.clone()));
    }
    b
  })
  .boxed();
  let mut hs = handles.into_inner().unwrap();
  // a Concat root is not passed through the wrap hook
  if !hs.iter().any(|(i, _)| *i == 0) {
    hs.push((0, root));
  }
  hs.sort_by_key(|(i, _)| *i);
  let peekers = if want_peekers {
    crate::spec::PEEKERS.lock().unwrap().take().unwrap_or_default()
  } else {
    Vec::new()
  };
  (hs.into_iter().map(|(_, b)| b).collect(), peekers)
}

/// One peek of every cache slot; entries: (peeker, key, value identity).
type PeekLog = Mutex<Vec<(usize, usize, Option<(Option<SourceMap>, usize)>)>>;

fn peek_all(peekers: &[crate::spec::Peeker], log: &PeekLog) {
  let keys = [
    rspack_sources::verif::map_options(true, false),
    rspack_sources::verif::map_options(false, false),
    rspack_sources::verif::map_options(true, true),
    rspack_sources::verif::map_options(false, true),
  ];
  let mut l = log.lock().unwrap();
  for (pi, p) in peekers.iter().enumerate() {
    for (ki, k) in keys.iter().enumerate() {
      match p(k) {
        rspack_sources::VerifPeek::Locked => {}
        rspack_sources::VerifPeek::Absent => l.push((pi, ki, None)),
        // the clone of the cached map keeps its storage alive, so an equal
        // address later on really is the same value
        rspack_sources::VerifPeek::Present(m, addr) => l.push((pi, ki, Some((m, addr)))),
      }
    }
  }
}

/// Per (cache, key) the peeks must read None* Some(x)* with a single x.
fn check_peek_log(log: &PeekLog, obs: &mut Obs, ctx: &dyn Fn() -> String) {
  let l = log.lock().unwrap();
  let mut state: std::collections::HashMap<(usize, usize), (Option<SourceMap>, usize)> = std::collections::HashMap::new();
  obs.count("cache_slot_peeks", l.len() as u64);
  for (pi, ki, v) in l.iter() {
    match (state.get(&(*pi, *ki)), v) {
      (Some(_), None) => {
        obs.fail("cache_entry_removed", format!("cache {pi} key {ki}: an entry that had been observed is gone; {}", ctx()));
        return;
      }
      (Some((m0, a0)), Some((m, a))) => {
        if a0 != a || m0 != m {
          obs.fail("cache_entry_replaced", format!("cache {pi} key {ki}: the cached map was replaced (storage {a0:#x} -> {a:#x}, mappings {:?} -> {:?}); {}", m0.as_ref().map(|m| m.mappings().to_string()), m.as_ref().map(|m| m.mappings().to_string()), ctx()));
          return;
        }
      }
      (None, Some((m, a))) => {
        state.insert((*pi, *ki), (m.clone(), *a));
      }
      (None, None) => {}
    }
  }
}

#[derive(Clone, Debug, PartialEq)]
pub enum Answer {
  Text(String),
  Map(Result<Vec<Vec<At>>, String>),
  MapLines(Result<Vec<Option<(String, u32)>>, String>),
  Stream(String, Vec<Vec<At>>, (u32, u32)),
  StreamLines(String, Vec<Option<(String, u32)>>, (u32, u32)),
  Hash(u64),
  Bool(bool),
}

#[allow(clippy::op_ref)]
fn beq(a: &BoxSource, b: &BoxSource) -> bool {
  a == b
}

fn strip(t: Vec<Vec<At>>) -> Vec<Vec<At>> {
  t.into_iter().map(|l| l.iter().map(|a| a.without_content()).collect()).collect()
}

fn perform(h: &BoxSource, op: Op, private: &BoxSource) -> Answer {
  match op {
    Op::Source => Answer::Text(h.source().to_string()),
    // map() first, the text (needed to read the map) afterwards: the call
    // under test must meet the object in the state the schedule left it in
    Op::Map(true) => {
      let m = h.map(&MapOptions::new(true));
      Answer::Map(attr_of_map(&h.source(), m.as_ref()).map(strip))
    }
    Op::Map(false) => {
      let m = h.map(&MapOptions::new(false));
      Answer::MapLines(attr_lines_of_map(&h.source(), m.as_ref()))
    }
    Op::Stream(true) => {
      let r = record(h, &MapOptions::new(true));
      Answer::Stream(r.text(), strip(attr_of_stream(&r)), r.end)
    }
    Op::Stream(false) => {
      let r = record(h, &MapOptions::new(false));
      Answer::StreamLines(r.text(), attr_lines_of_stream(&r), r.end)
    }
    Op::Hash => Answer::Hash(stable_hash(h)),
    Op::CloneSource => {
      let c: Box<dyn Source> = dyn_clone::clone_box(&**h);
      Answer::Text(c.source().to_string())
    }
    Op::CloneMap(c) => {
      let cl: Box<dyn Source> = dyn_clone::clone_box(&**h);
      let m = cl.map(&MapOptions::new(c));
      Answer::Map(attr_of_map(&cl.source(), m.as_ref()).map(strip))
    }
    Op::EqPrivate => Answer::Bool(beq(h, private)),
  }
}

fn check(case: &Value, obs: &mut Obs) {
  let spec = super::spec_of(case);
  let threads: Vec<Vec<Call>> = serde_json::from_value(case["threads"].clone()).unwrap();
  let warm: Vec<Call> = serde_json::from_value(case["warm"].clone()).unwrap_or_default();
  let max_schedules = case["max_schedules"].as_u64().unwrap_or(50) as usize;
  let max_preempt = case["max_preempt"].as_u64().unwrap_or(2) as usize;
  let random_walks = case["random_walks"].as_u64().unwrap_or(0);
  let fixed_prefix: Option<Vec<usize>> = case.get("schedule").and_then(|v| serde_json::from_value(v.clone()).ok());

  // sequential reference: every call on a private copy (fresh per call so the
  // reference does not depend on call order)
  let reference = |c: &Call| -> Answer {
    let hs = build_shared(&spec, true);
    let ps = build_shared(&spec, true);
    for w in &warm {
      let t = w.target.min(hs.len() - 1);
      let _ = perform(&hs[t], w.op, &ps[t]);
    }
    let t = c.target.min(hs.len() - 1);
    perform(&hs[t], c.op, &ps[t])
  };
  // a panic of the single-threaded reference is not a concurrency failure
  // (it belongs to C17): the case cannot be evaluated for C18
  let Ok(expected) = std::panic::catch_unwind(std::panic::AssertUnwindSafe(|| {
    threads.iter().map(|t| t.iter().map(&reference).collect()).collect::<Vec<Vec<Answer>>>()
  })) else {
    let _ = crate::worker::take_panic();
    obs.count("sequential_reference_panicked(case_not_evaluated)", 1);
    return;
  };

  let mut prefix: Option<Vec<usize>> = Some(fixed_prefix.clone().unwrap_or_default());
  let mut schedules = 0usize;
  let mut traces = std::collections::BTreeSet::new();
  let mut preempted = false;
  let mut exhausted = false;
  let mut walk = 0u64;
  loop {
    let strategy = match &prefix {
      Some(p) => Strategy { prefix: p.clone(), random: None, max_preempt },
      None => {
        if walk >= random_walks {
          break;
        }
        walk += 1;
        Strategy { prefix: vec![], random: Some(spec.fingerprint() ^ walk.wrapping_mul(0x9E37)), max_preempt: usize::MAX }
      }
    };
    // fresh shared objects per schedule
    let peeking = std::env::var("RSV_NO_PEEK").is_err();
    let (hs, peekers) = build_shared_with_peekers(&spec, true, peeking);
    let hs = Arc::new(hs);
    let peekers = Arc::new(peekers);
    let peek_log: Arc<PeekLog> = Arc::new(Mutex::new(Vec::new()));
    let ps = Arc::new(build_shared(&spec, true));
    for c in &warm {
      let t = c.target.min(hs.len() - 1);
      let _ = perform(&hs[t], c.op, &ps[t]);
    }
    peek_all(&peekers, &peek_log);
    let (w0, r0) = rspack_sources::verif::cache_write_counts();
    let bodies: Vec<Box<dyn FnOnce() -> Vec<Answer> + Send>> = threads
      .iter()
      .map(|calls| {
        let calls = calls.clone();
        let hs = hs.clone();
        let ps = ps.clone();
        let peekers = peekers.clone();
        let peek_log = peek_log.clone();
        Box::new(move || {
          calls
            .iter()
            .map(|c| {
              let t = c.target.min(hs.len() - 1);
              let a = perform(&hs[t], c.op, &ps[t]);
              // peeks happen between calls of a managed thread, i.e. in the
              // real order of the schedule
              peek_all(&peekers, &peek_log);
              a
            })
            .collect()
        }) as Box<dyn FnOnce() -> Vec<Answer> + Send>
      })
      .collect();
    let out = sched::run(bodies, &strategy);
    schedules += 1;
    obs.count("schedules", 1);
    match out {
      Err(RunError::Timeout) => {
        // threads may be stuck: the process cannot continue safely
        eprintln!("C18-SCHEDULER-TIMEOUT");
        std::process::exit(18);
      }
      Err(RunError::Deadlock(o)) => {
        // parked threads cannot be recovered: report through the exit code,
        // the orchestrator re-runs the case alone and records the verdict
        eprintln!("C18-DEADLOCK trace={:?} choices={:?}", o.trace, o.choices);
        std::process::exit(17);
      }
      Ok((results, o)) => {
        traces.insert(sched::trace_hash(&o.trace));
        obs.count("schedule_points", o.trace.len() as u64);
        if o.preemptions > 0 {
          preempted = true;
        }
        let sched_desc = || format!("schedule choices {:?} trace {:?}", o.choices.iter().map(|c| c.0).collect::<Vec<_>>(), o.trace);
        for (ti, r) in results.iter().enumerate() {
          match r {
            Err(_) => {
              let (msg, origin) = crate::worker::take_panic().unwrap_or_default();
              if origin == "harness" {
                obs.inconclusive.push(format!("harness panic in thread {ti}: {msg}"));
              } else {
                obs.fail("panic_in_thread", format!("thread {ti} panicked: {msg}; {}", sched_desc()));
              }
            }
            Ok(answers) => {
              for (ci, a) in answers.iter().enumerate() {
                obs.count("answers_compared", 1);
                if *a != expected[ti][ci] {
                  obs.fail(
                    "answer_differs_from_sequential",
                    format!("thread {ti} call {ci} {:?}: concurrent answer {:?}, sequential answer {:?}; {}", threads[ti][ci], a, expected[ti][ci], sched_desc()),
                  );
                }
              }
            }
          }
        }
        let (w1, r1) = rspack_sources::verif::cache_write_counts();
        obs.count("cache_writes_observed", w1 - w0);
        if r1 > r0 {
          obs.fail("cached_map_replaced", format!("{} cache store(s) replaced an already cached map; {}", r1 - r0, sched_desc()));
        }
        peek_all(&peekers, &peek_log);
        check_peek_log(&peek_log, obs, &sched_desc);
        if obs.failed() {
          // keep the schedule for replay
          obs.notes.push(format!("failing schedule prefix: {:?}", o.choices.iter().map(|c| c.0).collect::<Vec<_>>()));
          break;
        }
        if fixed_prefix.is_some() {
          break;
        }
        if prefix.is_some() {
          prefix = sched::next_prefix(&o.choices);
          if prefix.is_none() {
            exhausted = true;
          } else if schedules >= max_schedules {
            prefix = None;
          }
        }
      }
    }
  }
  obs.count("distinct_traces", traces.len() as u64);
  if exhausted {
    obs.class("dfs_exhausted_at_preemption_bound");
  } else {
    obs.class("dfs_truncated");
  }
  spec.walk(&mut |s| obs.class(s.kind()));
  if traces.len() >= 2 && preempted {
    obs.nontrivial();
  }
}

// ---------------------------------------------------------------------------
// free-running stress (ThreadSanitizer / AddressSanitizer / Miri builds)

pub fn def_stress() -> PropDef {
  PropDef {
    id: "C18S",
    gen: gen_stress,
    check: check_stress,
    panic_policy: PanicPolicy::Violation,
    rule: "free-running stress: 4-8 real threads start together behind a barrier and each perform 3-6 calls (same call mix as the scheduled monitor) on a shared tree, half of the cases with yield hooks installed at the library's schedule points; every answer is compared with the same call on a private single-threaded copy, cache stores that replace a value are counted; meant to run under ThreadSanitizer (data races), AddressSanitizer (use after free) and, in a small variant, Miri; non-trivial = >= 4 threads and a CachedSource or ReplaceSource with replacements in the tree",
    cases: |t| match t {
      Tier::Quick => 1_600,
      Tier::Thorough => 24_000,
    },
  }
}

pub fn def_miri() -> PropDef {
  PropDef {
    id: "C18M",
    gen: gen_stress_small,
    check: check_stress,
    panic_policy: PanicPolicy::Violation,
    rule: "Miri-sized stress: 2-3 threads x 1-2 calls on tiny shared trees (texts <= 8 bytes) containing CachedSource / ReplaceSource / binary leaves; Miri reports data races, dangling borrows and deadlocks; answers are compared with the sequential copy; non-trivial = a CachedSource or ReplaceSource with replacements is shared by >= 2 threads",
    cases: |t| match t {
      Tier::Quick => 480,
      Tier::Thorough => 9_600,
    },
  }
}

fn gen_shared_spec(rng: &mut Rng, max_text: usize, max_size: usize) -> Spec {
  loop {
    let mut cfg = GenCfg::ascii_consistent(rng.range(1, 3));
    cfg.max_text = max_text;
    cfg.max_width = 3;
    cfg.max_ops = 2;
    cfg.custom_leaves = false;
    // the sequential reference must not depend on the call history (see C10)
    cfg.cached_under_replace = false;
    cfg.bytes_leaves = false;
    let s = gen_case(rng, &cfg);
    let interesting = s.contains(&|n| match n {
      Spec::Cached { .. } => true,
      Spec::Replace { ops, .. } => !ops.is_empty(),
      _ => false,
    });
    if interesting && s.size() <= max_size {
      return if rng.chance(1, 2) { Spec::cached(s) } else { s };
    }
  }
}

fn gen_calls(rng: &mut Rng, nhandles: usize, lo: usize, hi: usize) -> Vec<Call> {
  let n = rng.range(lo, hi);
  (0..n)
    .map(|_| Call {
      target: if rng.chance(1, 2) { 0 } else { rng.below(nhandles) },
      op: match rng.below(12) {
        0 => Op::Source,
        1..=3 => Op::Map(rng.chance(3, 4)),
        4..=7 => Op::Stream(rng.chance(3, 4)),
        8 => Op::Hash,
        9 => Op::CloneSource,
        10 => Op::CloneMap(true),
        _ => Op::EqPrivate,
      },
    })
    .collect()
}

/// Lazy decoding under real threads: a large binary leaf with invalid UTF-8
/// (decoded on first use into a once-cell) shared between a ConcatSource
/// whose map() streams it in final-source mode and direct readers; every
/// thread's first call hits the cold leaf right after the barrier. No
/// CachedSource / ReplaceSource, so sequential answers are history independent.
fn gen_lazy_decode(rng: &mut Rng) -> Value {
  let unit: &[u8] = *rng.pick(&[&b"ab;cd\n"[..], &b"x = 1;\n"[..], &b"0123456789abcdef\n"[..]]);
  let total = *rng.pick(&[16usize << 10, 48 << 10, 96 << 10]);
  let mut bytes: Vec<u8> = Vec::with_capacity(total + 4);
  while bytes.len() < total {
    bytes.extend_from_slice(unit);
  }
  // invalid only at the end (a valid prefix is scanned first) or also early
  if rng.chance(1, 2) {
    let at = rng.below(bytes.len());
    bytes[at] = 0xff;
  }
  bytes.push(0xff);
  let leaf = if rng.chance(1, 2) { Spec::RawBytes { bytes } } else { Spec::RawBuffer { bytes } };
  let other = Spec::Original { text: "tail = 1;\n".into(), name: "a.js".into() };
  let children = if rng.chance(1, 2) { vec![leaf, other] } else { vec![other, leaf] };
  let spec = Spec::Concat { children, how: *rng.pick(&[crate::spec::How::NewBoxed, crate::spec::How::Add]) };
  let nthreads = rng.range(3, 6);
  let threads: Vec<Vec<Call>> = (0..nthreads)
    .map(|t| {
      let first = if t == 0 {
        // the enclosing map(): the leaf is streamed in final-source mode
        Call { target: 0, op: Op::Map(rng.chance(1, 2)) }
      } else {
        Call {
          target: rng.below(2),
          op: match rng.below(6) {
            0 | 1 => Op::Source,
            2 => Op::Stream(false),
            3 => Op::Hash,
            4 => Op::CloneSource,
            _ => Op::Map(false),
          },
        }
      };
      vec![first, Call { target: rng.below(2), op: Op::Source }]
    })
    .collect();
  json!({ "spec": spec, "threads": threads, "warm": [], "yield_hooks": false, "rounds": 6, "no_shrink": true, "family": "lazy_decode" })
}

fn gen_stress(rng: &mut Rng, _tier: Tier) -> Value {
  if rng.chance(1, 8) {
    return gen_lazy_decode(rng);
  }
  let spec = gen_shared_spec(rng, 14, 12);
  let nh = handle_specs(&spec).len();
  let nthreads = rng.range(4, 8);
  let threads: Vec<Vec<Call>> = (0..nthreads).map(|_| gen_calls(rng, nh, 3, 6)).collect();
  let warm = gen_calls(rng, nh, 0, 1);
  json!({ "spec": spec, "threads": threads, "warm": warm, "yield_hooks": rng.chance(1, 2), "rounds": 3, "no_shrink": true })
}

fn gen_stress_small(rng: &mut Rng, _tier: Tier) -> Value {
  let spec = gen_shared_spec(rng, 8, 6);
  let nh = handle_specs(&spec).len();
  let nthreads = rng.range(2, 3);
  let threads: Vec<Vec<Call>> = (0..nthreads).map(|_| gen_calls(rng, nh, 1, 2)).collect();
  let warm = gen_calls(rng, nh, 0, 1);
  json!({ "spec": spec, "threads": threads, "warm": warm, "yield_hooks": false, "rounds": 1, "no_shrink": true })
}

fn check_stress(case: &Value, obs: &mut Obs) {
  let spec = super::spec_of(case);
  let threads: Vec<Vec<Call>> = serde_json::from_value(case["threads"].clone()).unwrap();
  let warm: Vec<Call> = serde_json::from_value(case["warm"].clone()).unwrap_or_default();
  let rounds = case["rounds"].as_u64().unwrap_or(1);
  let yield_hooks = case["yield_hooks"].as_bool().unwrap_or(false);
  let reference = |c: &Call| -> Answer {
    let hs = build_shared(&spec, true);
    let ps = build_shared(&spec, true);
    for w in &warm {
      let t = w.target.min(hs.len() - 1);
      let _ = perform(&hs[t], w.op, &ps[t]);
    }
    let t = c.target.min(hs.len() - 1);
    perform(&hs[t], c.op, &ps[t])
  };
  // a panic of the single-threaded reference is not a concurrency failure
  // (it belongs to C17): the case cannot be evaluated for C18
  let Ok(expected) = std::panic::catch_unwind(std::panic::AssertUnwindSafe(|| {
    threads.iter().map(|t| t.iter().map(&reference).collect()).collect::<Vec<Vec<Answer>>>()
  })) else {
    let _ = crate::worker::take_panic();
    obs.count("sequential_reference_panicked(case_not_evaluated)", 1);
    return;
  };
  if yield_hooks {
    rspack_sources::verif::set_scheduler(Some((
      Arc::new(|_| std::thread::yield_now()),
      Arc::new(|_, _| std::thread::yield_now()),
    )));
  } else {
    rspack_sources::verif::set_scheduler(None);
  }
  for round in 0..rounds {
    let peeking = std::env::var("RSV_NO_PEEK").is_err();
    let (hs, peekers) = build_shared_with_peekers(&spec, true, peeking);
    let hs = Arc::new(hs);
    let peekers = Arc::new(peekers);
    // one log per thread (peeks of different threads are not ordered)
    let logs: Vec<Arc<PeekLog>> = (0..threads.len() + 1).map(|_| Arc::new(Mutex::new(Vec::new()))).collect();
    let ps = Arc::new(build_shared(&spec, true));
    for c in &warm {
      let t = c.target.min(hs.len() - 1);
      let _ = perform(&hs[t], c.op, &ps[t]);
    }
    let (_, r0) = rspack_sources::verif::cache_write_counts();
    let barrier = Arc::new(std::sync::Barrier::new(threads.len()));
    let joins: Vec<_> = threads
      .iter()
      .enumerate()
      .map(|(ti, calls)| {
        let calls = calls.clone();
        let hs = hs.clone();
        let ps = ps.clone();
        let barrier = barrier.clone();
        let peekers = peekers.clone();
        let log = logs[ti].clone();
        std::thread::spawn(move || {
          barrier.wait();
          calls
            .iter()
            .map(|c| {
              let t = c.target.min(hs.len() - 1);
              let a = perform(&hs[t], c.op, &ps[t]);
              peek_all(&peekers, &log);
              a
            })
            .collect::<Vec<Answer>>()
        })
      })
      .collect();
    for (ti, j) in joins.into_iter().enumerate() {
      match j.join() {
        Err(payload) => {
          let (mut msg, origin) = crate::worker::take_panic().unwrap_or_default();
          if msg.is_empty() {
            // the hook ran on the other thread: take the message from the payload
            msg = payload
              .downcast_ref::<String>()
              .cloned()
              .or_else(|| payload.downcast_ref::<&str>().map(|s| s.to_string()))
              .unwrap_or_default()
              .chars()
              .take(300)
              .collect();
          }
          if origin == "harness" {
            obs.inconclusive.push(format!("harness panic in thread {ti}: {msg}"));
          } else {
            obs.fail("panic_in_thread", format!("round {round} thread {ti} panicked: {msg}"));
          }
        }
        Ok(answers) => {
          for (ci, a) in answers.iter().enumerate() {
            obs.count("answers_compared", 1);
            if *a != expected[ti][ci] {
              obs.fail("answer_differs_from_sequential", format!("round {round} thread {ti} call {ci} {:?}: concurrent answer {:?}, sequential answer {:?}", threads[ti][ci], a, expected[ti][ci]));
            }
          }
        }
      }
    }
    let (_, r1) = rspack_sources::verif::cache_write_counts();
    if r1 > r0 {
      obs.fail("cached_map_replaced", format!("round {round}: {} cache store(s) replaced an already cached map", r1 - r0));
    }
    // every thread's own view must be None* Some(x)*, and after the join all
    // views must end in the final value
    let last = logs.last().unwrap().clone();
    peek_all(&peekers, &last);
    for (ti, log) in logs.iter().enumerate() {
      // append the final state to each thread's history
      if ti + 1 < logs.len() {
        let fin = last.lock().unwrap().clone();
        log.lock().unwrap().extend(fin);
      }
      check_peek_log(log, obs, &|| format!("round {round}, view of thread {ti}"));
    }
    obs.count("stress_rounds", 1);
    obs.count("threads_run", threads.len() as u64);
  }
  rspack_sources::verif::set_scheduler(None);
  if case.get("family").and_then(|v| v.as_str()) == Some("lazy_decode") {
    obs.class("lazy_decode_of_a_large_invalid_utf8_leaf");
  }
  if yield_hooks {
    obs.class("yield_hooks");
  } else {
    obs.class("no_hooks");
  }
  spec.walk(&mut |s| obs.class(s.kind()));
  let shared_lazy = spec.contains(&|n| match n {
    Spec::Cached { .. } => true,
    Spec::Replace { ops, .. } => !ops.is_empty(),
    _ => false,
  });
  if shared_lazy && threads.len() >= 2 && (threads.len() >= 4 || case["rounds"].as_u64() == Some(1)) {
    obs.nontrivial();
  }
}
