//! C05 — ReplaceSource text equals the reference replacement model, for every
//! history of mutating and observing calls.

use std::hash::{Hash, Hasher};

use rspack_sources::{
  BoxSource, MapOptions, OriginalSource, RawSource, ReplaceSource, Source,
  SourceExt,
};
use serde::{Deserialize, Serialize};
use serde_json::{json, Value};

use super::{PanicPolicy, PropDef, Tier};
use crate::{
  gen::{gen_ops, gen_text, new_pool, GenCfg},
  model::splice::splice_text,
  obs::Obs,
  record::record,
  rng::Rng,
  spec::{apply_op, Op},
};

#[derive(Clone, Debug, Serialize, Deserialize)]
enum Step {
  Mutate(Op),
  /// 0 source 1 rope 2 buffer 3 size 4 to_writer 5 map(true) 6 map(false)
  /// 7 hash 8 stream(true) 9 stream(false) 10 debug
  Observe(u8),
  /// take a clone now; it is observed (and compared with the model of the
  /// ops so far) at the end of the history, and also right away
  Clone,
  /// continue the history on another of the objects created so far (0 = the
  /// original, k = the k-th clone; taken modulo their number): the object and
  /// its clones are then mutated and observed in turn
  Switch(usize),
  /// `current.clone_from(&objects[k])` (k modulo their number, ignored when
  /// it names the current object): the in-place form of cloning; the current
  /// object continues with the donor's replacement list
  CloneFrom(usize),
}

#[derive(Clone, Debug, Serialize, Deserialize)]
struct Case {
  inner: String,
  original: bool,
  steps: Vec<Step>,
}

pub fn def() -> PropDef {
  PropDef {
    id: "C05",
    gen,
    check,
    panic_policy: PanicPolicy::Violation,
    rule: "random UTF-8 inner texts and histories (<=12 steps quick / <=30 thorough) mixing replace/insert/*_with_enforce calls (equal keys, overlaps, nesting, all enforce values, positions beyond the end) with observer calls (source, rope, buffer, size, to_writer, map, hash, stream, Debug, clone) and with switches between the object and the clones taken so far (each continues with its own replacement list) and in-place clone_from between them; every observation is compared with the splice model of the replacement list at that moment; non-trivial = history has the pattern mutate, observe, mutate, observe with >=2 replacements; distinct = case fingerprint",
    cases: |t| match t {
      Tier::Quick => 300_000,
      Tier::Thorough => 4_000_000,
    },
  }
}

fn gen(rng: &mut Rng, tier: Tier) -> Value {
  let cfg = GenCfg {
    ascii: rng.chance(1, 2),
    max_ops: 6,
    ..GenCfg::ascii_consistent(1)
  };
  let pool = new_pool(rng, &cfg);
  let max_len = if rng.chance(1, 3) { 12 } else { 40 };
  let inner = gen_text(rng, max_len, cfg.ascii);
  let max_steps = match tier {
    Tier::Quick => 12,
    Tier::Thorough => 30,
  };
  let mut steps = Vec::new();
  let mut ops_so_far: Vec<Op> = Vec::new();
  if rng.chance(1, 16) {
    // many replacements over very few distinct keys: the order among equal
    // keys (insertion order) only matters when a sort is not stable, and
    // small slices are sorted stably by most algorithms, so go beyond 20
    let b = crate::gen::boundaries(&inner);
    let keys: Vec<(u32, u32)> = (0..rng.range(1, 3))
      .map(|_| {
        let i = rng.below(b.len());
        let j = rng.range(i, b.len() - 1);
        (b[i] as u32, if rng.chance(1, 2) { b[i] as u32 } else { b[j] as u32 })
      })
      .collect();
    let total = rng.range(24, 70);
    for k in 0..total {
      let (start, end) = *rng.pick(&keys);
      let op = Op {
        start,
        end,
        content: format!("<{k}>"),
        name: None,
        enforce: if rng.chance(1, 5) { rng.below(3) as u8 } else { 1 },
        plain_api: rng.chance(1, 2),
        observe_before: false,
      };
      steps.push(Step::Mutate(op));
      if rng.chance(1, 12) {
        steps.push(Step::Observe(rng.below(11) as u8));
      }
    }
    steps.push(Step::Observe(0));
    return serde_json::to_value(Case { inner, original: rng.chance(1, 2), steps })
      .map(|c| json!({ "history": c }))
      .unwrap();
  }
  let n = rng.range(2, max_steps);
  for _ in 0..n {
    match rng.below(10) {
      0..=4 => {
        // one new op, related to the previous ones through gen_ops' shapes
        let mut more = gen_ops(rng, &inner, &cfg, &pool);
        if rng.chance(1, 4) && !ops_so_far.is_empty() {
          // force an equal key with a different enforce / content
          let mut o = rng.pick(&ops_so_far).clone();
          o.enforce = rng.below(3) as u8;
          o.content = gen_text(rng, 4, cfg.ascii);
          o.plain_api = false;
          more.push(o);
        }
        if let Some(op) = more.pop() {
          ops_so_far.push(op.clone());
          steps.push(Step::Mutate(op));
        }
      }
      5..=8 => steps.push(Step::Observe(rng.below(11) as u8)),
      _ => {
        match rng.below(5) {
          0 | 1 => steps.push(Step::Clone),
          2 | 3 => steps.push(Step::Switch(rng.below(4))),
          _ => steps.push(Step::CloneFrom(rng.below(4))),
        }
      }
    }
  }
  steps.push(Step::Observe(0));
  serde_json::to_value(Case {
    inner,
    original: rng.chance(1, 2),
    steps,
  })
  .map(|c| json!({ "history": c }))
  .unwrap()
}

fn observe(
  r: &ReplaceSource<BoxSource>,
  kind: u8,
  expect: &str,
  obs: &mut Obs,
  who: &str,
  step: usize,
) {
  let ctx = |what: &str, got: String| {
    format!("step {step} {who}: {what} gives {got:?}, model says {expect:?}")
  };
  match kind {
    0 => {
      let s = r.source().to_string();
      obs.count("text_observations", 1);
      if s != expect {
        obs.fail("source", ctx("source()", s));
      }
    }
    1 => {
      let s = r.rope().to_string();
      obs.count("text_observations", 1);
      if s != expect {
        obs.fail("rope", ctx("rope()", s));
      }
    }
    2 => {
      let b = r.buffer().to_vec();
      obs.count("text_observations", 1);
      if b != expect.as_bytes() {
        obs.fail("buffer", ctx("buffer()", String::from_utf8_lossy(&b).to_string()));
      }
    }
    3 => {
      let n = r.size();
      obs.count("text_observations", 1);
      if n != expect.len() {
        obs.fail("size", ctx("size()", n.to_string()));
      }
    }
    4 => {
      let mut v = Vec::new();
      let res = r.to_writer(&mut v);
      obs.count("text_observations", 1);
      if res.is_err() || v != expect.as_bytes() {
        obs.fail("to_writer", ctx("to_writer()", String::from_utf8_lossy(&v).to_string()));
      }
    }
    // observers that do not return the text: only their side effects matter
    // here; a panic of theirs is not a statement about source() (C17)
    5 | 6 | 7 | 10 => {
      let res = std::panic::catch_unwind(std::panic::AssertUnwindSafe(|| match kind {
        5 => {
          let _ = r.map(&MapOptions::new(true));
        }
        6 => {
          let _ = r.map(&MapOptions::new(false));
        }
        7 => {
          let mut h = std::collections::hash_map::DefaultHasher::new();
          r.hash(&mut h);
          let _ = h.finish();
        }
        _ => {
          let _ = format!("{:?}", r);
        }
      }));
      if res.is_err() {
        let _ = crate::worker::take_panic();
        obs.count("non_text_observer_panics", 1);
      }
    }
    8 | 9 => {
      let rec = record(r, &MapOptions::new(kind == 8));
      let s = rec.text();
      obs.count("text_observations", 1);
      if s != expect {
        obs.fail("stream", ctx("stream_chunks", s));
      }
    }
    _ => {
      let _ = format!("{:?}", r);
    }
  }
}

fn check(case: &Value, obs: &mut Obs) {
  let c: Case = serde_json::from_value(case["history"].clone()).unwrap();
  let inner: BoxSource = if c.original {
    OriginalSource::new(c.inner.clone(), "f.js").boxed()
  } else {
    RawSource::from(c.inner.clone()).boxed()
  };
  // objs[0] is the original, the others are clones taken mid-history; each
  // has its own replacement list from the moment it was cloned
  let mut objs: Vec<(ReplaceSource<BoxSource>, Vec<Op>, String)> =
    vec![(ReplaceSource::new(inner), Vec::new(), "object".to_string())];
  let mut cur = 0usize;
  let mut switched = false;
  let mut pattern = 0; // progress through mutate, observe, mutate, observe
  for (i, st) in c.steps.iter().enumerate() {
    match st {
      Step::Mutate(op) => {
        apply_op(&mut objs[cur].0, op);
        objs[cur].1.push(op.clone());
        if pattern == 0 || pattern == 2 {
          pattern += 1;
        }
      }
      Step::Observe(k) => {
        let expect = splice_text(&c.inner, &objs[cur].1);
        observe(&objs[cur].0, *k, &expect, obs, &objs[cur].2, i);
        if pattern == 1 || pattern == 3 {
          pattern += 1;
        }
      }
      Step::Clone => {
        let expect = splice_text(&c.inner, &objs[cur].1);
        let cl = objs[cur].0.clone();
        observe(&cl, 0, &expect, obs, "fresh clone", i);
        let ops = objs[cur].1.clone();
        objs.push((cl, ops, format!("clone taken at step {i}")));
      }
      Step::CloneFrom(k) => {
        let k = k % objs.len();
        if k != cur {
          let (dst, src) = if cur < k {
            let (l, r) = objs.split_at_mut(k);
            (&mut l[cur], &r[0])
          } else {
            let (l, r) = objs.split_at_mut(cur);
            (&mut r[0], &l[k])
          };
          dst.0.clone_from(&src.0);
          dst.1 = src.1.clone();
          obs.count("clone_from_calls", 1);
          switched = true;
        }
      }
      Step::Switch(k) => {
        let next = k % objs.len();
        if next != cur {
          switched = true;
        }
        cur = next;
      }
    }
  }
  // every object (clones keep the state of the moment they were taken plus
  // what was done to them since): all text observers, twice round so that an
  // observation of one object lies between two observations of another
  for round in 0..2 {
    for (r, ops, who) in &objs {
      let expect = splice_text(&c.inner, ops);
      for k in if round == 0 { &[0u8, 1, 2, 3, 4, 8, 9][..] } else { &[0u8, 1][..] } {
        observe(r, *k, &expect, obs, &format!("final {who}"), c.steps.len());
      }
    }
  }
  let ops: Vec<Op> = objs.iter().flat_map(|o| o.1.iter().cloned()).collect();
  let clones = &objs[1..];
  if switched {
    obs.class("object_and_clones_used_in_turn");
  }
  let keys_collide = ops.iter().enumerate().any(|(i, a)| {
    ops[i + 1..]
      .iter()
      .any(|b| (a.start, a.end) == (b.start, b.end))
  });
  if keys_collide {
    obs.class("equal_keys");
  }
  if objs.iter().any(|o| o.1.len() > 20) {
    obs.class("more_than_20_replacements(unstable sort visible)");
  }
  if ops.iter().any(|o| o.enforce != 1) {
    obs.class("enforce");
  }
  if ops.iter().any(|o| o.start as usize > c.inner.len()) {
    obs.class("beyond_end");
  }
  if !c.inner.is_ascii() {
    obs.class("multibyte");
  }
  if !clones.is_empty() {
    obs.class("clone_mid_history");
  }
  if pattern >= 4 && ops.len() >= 2 {
    obs.nontrivial();
  }
}
