//! C03 — map() attributes every position exactly as the chunk stream does.

use rspack_sources::MapOptions;
use serde_json::{json, Value};

use super::{PanicPolicy, PropDef, Tier};
use crate::{
  model::attr::{
    attr_lines_of_map, attr_lines_of_stream, attr_of_map, attr_of_stream,
    first_diff,
  },
  obs::Obs,
  record::record,
  rng::Rng,
};

pub fn def() -> PropDef {
  PropDef {
    id: "C03",
    gen,
    check,
    panic_policy: PanicPolicy::Count,
    rule: "random ASCII source trees with consistent leaf maps (as C02); for each column setting the non-final chunk stream and map() of the same object are turned into attribution tables (reference decoder) and compared at every character; non-trivial = tree has a composite and >=1 mapped and >=1 unmapped character was compared; trees repeat an earlier sibling now and then and, in every second case, equal Cached nodes of the tree under test are one shared instance / clones sharing one cache; the order of the two calls (stream, map) is drawn per case; distinct = spec fingerprint",
    cases: |t| match t {
      Tier::Quick => 150_000,
      Tier::Thorough => 2_000_000,
    },
  }
}

fn gen(rng: &mut Rng, tier: Tier) -> Value {
  // the order of the two calls matters for trees with caches: stream first
  // fills them by streaming, map() first fills them from the inner map()
  json!({ "spec": super::c02::ascii_tree_case(rng, tier), "map_first": rng.chance(1, 2), "share_instances": rng.chance(1, 2), "columns_first": rng.chance(1, 2) })
}

fn check(case: &Value, obs: &mut Obs) {
  let spec = super::spec_of(case);
  let src = super::build_under_test(case, &spec, obs);
  let source = src.source().to_string();
  let map_first = case["map_first"].as_bool().unwrap_or(false);
  obs.class(if map_first { "map_then_stream" } else { "stream_then_map" });
  let mut mapped_chars = 0u64;
  let mut unmapped_chars = 0u64;
  // which column setting is asked first is drawn per case as well
  let first_columns = case.get("columns_first").and_then(|v| v.as_bool()).unwrap_or(true);
  for columns in [first_columns, !first_columns] {
    let opts = MapOptions::new(columns);
    let (rec, map) = if map_first {
      let map = src.map(&opts);
      (record(&src, &opts), map)
    } else {
      let rec = record(&src, &opts);
      (rec, src.map(&opts))
    };
    if rec.text() != source {
      obs.count("skipped_stream_text_differs(C01)", 1);
      continue;
    }
    let stream_mapped = rec.mapped_chunks() > 0;
    if map.is_some() != stream_mapped {
      obs.fail(
        if map.is_some() {
          "map_some_but_no_mapped_chunk"
        } else {
          "map_none_but_mapped_chunk"
        },
        format!(
          "columns={columns}: map() is {} but the stream has {} mapped chunks",
          if map.is_some() { "Some" } else { "None" },
          rec.mapped_chunks()
        ),
      );
    }
    if columns {
      let a = attr_of_stream(&rec);
      match attr_of_map(&source, map.as_ref()) {
        Err(e) => obs.fail("map_undecodable", e),
        Ok(b) => {
          for l in &a {
            for x in l {
              if matches!(x, crate::model::attr::At::Un) {
                unmapped_chars += 1
              } else {
                mapped_chars += 1
              }
            }
          }
          obs.count("positions_compared", a.iter().map(|l| l.len() as u64).sum());
          if let Some(d) = first_diff(&a, &b, true) {
            obs.fail(
              "attribution_columns",
              format!(
                "columns=true: stream vs map() {d}; mappings {:?}; text {:?}",
                map.as_ref().map(|m| m.mappings().to_string()),
                source
              ),
            );
          }
        }
      }
    } else {
      let a = attr_lines_of_stream(&rec);
      match attr_lines_of_map(&source, map.as_ref()) {
        Err(e) => obs.fail("map_undecodable", e),
        Ok(b) => {
          obs.count("lines_compared", a.len() as u64);
          if a != b {
            let i = a.iter().zip(&b).position(|(x, y)| x != y);
            obs.fail(
              "attribution_lines",
              format!(
                "columns=false: first differing line {:?}: stream {:?} vs map() {:?}; mappings {:?}; text {:?}",
                i.map(|i| i + 1),
                i.map(|i| &a[i]),
                i.map(|i| &b[i]),
                map.as_ref().map(|m| m.mappings().to_string()),
                source
              ),
            );
          }
        }
      }
    }
  }
  spec.walk(&mut |s| obs.class(s.kind()));
  if mapped_chars > 0 && unmapped_chars > 0 && super::c01::is_composite(&spec) {
    obs.nontrivial();
  }
}
