//! C08 — a SourceMapSource reproduces the attribution of the map it was given.

use rspack_sources::{verif::map_options, MapOptions, Source};
use serde_json::{json, Value};

use super::{PanicPolicy, PropDef, Tier};
use crate::{
  gen::{gen_consistent_map, gen_text, new_pool, split_pieces, GenCfg},
  model::attr::{
    apply_source_root, attr_of_resolved, attr_of_stream, first_diff, lines_of, At,
    Resolved,
  },
  obs::Obs,
  record::{record, Rec},
  rng::Rng,
  spec::{build_box, How, MapSpec, Seg, Spec},
};

pub fn def() -> PropDef {
  PropDef {
    id: "C08",
    gen,
    check,
    panic_policy: PanicPolicy::Count,
    rule: "random ASCII texts T and consistent maps M (sorted segments inside T, 1-field segments, several per line, empty lines, partial coverage, zero-width segments at end of line/text, sourceRoot absent/\"\"/\"r\"/\"r/\", 1-3 sources, 0-3 names); the same (T, M) is served by SourceMapSource, by a user-defined source through stream_chunks_default with &str and with a multi-piece Rope, and through map() of an enclosing ConcatSource; all four (columns, final_source) variants are compared per character with the reference lookup in M; non-trivial = M has >= 2 mapped segments on characters of T and >= 1 unmapped character; distinct = case fingerprint",
    cases: |t| match t {
      Tier::Quick => 100_000,
      Tier::Thorough => 1_500_000,
    },
  }
}

fn gen(rng: &mut Rng, tier: Tier) -> Value {
  let cfg = GenCfg::ascii_consistent(1);
  let mut pool = new_pool(rng, &cfg);
  let max = match (tier, rng.below(4)) {
    (_, 0) => 8,
    (Tier::Thorough, 1) => 150,
    _ => 40,
  };
  let text = gen_text(rng, max, true);
  let map = gen_consistent_map(rng, &text, &mut pool, true, true);
  let pieces = split_pieces(rng, &text);
  let prefix = rng.pick(&["", "", "x", "x\n", "\n"]).to_string();
  json!({ "text": text, "map": map, "pieces": pieces, "prefix": prefix })
}

fn reference(text: &str, m: &MapSpec) -> Resolved {
  let sources: Vec<String> = m
    .sources
    .iter()
    .map(|s| apply_source_root(m.source_root.as_deref(), s))
    .collect();
  let contents = (0..m.sources.len())
    .map(|i| m.contents.get(i).cloned())
    .collect();
  let _ = text;
  Resolved::from_parts(&m.segs, sources, contents, m.names.clone())
}

fn norm(a: &At) -> At {
  match a {
    At::Map { file, content, line, col, name } => At::Map {
      file: file.clone(),
      content: content.clone().filter(|c| !c.is_empty()),
      line: *line,
      col: *col,
      name: name.clone(),
    },
    At::Un => At::Un,
  }
}

fn norm_table(t: Vec<Vec<At>>) -> Vec<Vec<At>> {
  t.into_iter().map(|l| l.iter().map(norm).collect()).collect()
}

/// Resolved view of a text-less stream (positions as reported).
fn resolved_of_final_stream(rec: &Rec) -> Resolved {
  let segs: Vec<Seg> = rec.chunks().map(|(_, s)| s.clone()).collect();
  let sources = rec.sources();
  Resolved::from_parts(
    &segs,
    sources.iter().enumerate().map(|(i, s)| s.as_ref().map_or(format!("<source {i} never announced>"), |s| s.0.clone())).collect(),
    sources.iter().map(|s| s.as_ref().and_then(|s| s.1.clone())).collect(),
    rec.names().iter().enumerate().map(|(i, n)| n.clone().unwrap_or(format!("<name {i} never announced>"))).collect(),
  )
}

fn check_tables(rec: &Rec, m: &MapSpec, with_names: bool, who: &str, obs: &mut Obs) {
  let exp_sources: Vec<(String, Option<String>)> = m
    .sources
    .iter()
    .enumerate()
    .map(|(i, s)| {
      (
        apply_source_root(m.source_root.as_deref(), s),
        m.contents.get(i).cloned(),
      )
    })
    .collect();
  let got: Vec<Option<(String, Option<String>)>> = rec.sources();
  let got_flat: Vec<(String, Option<String>)> = got.iter().map(|g| g.clone().unwrap_or(("<missing>".into(), None))).collect();
  obs.count("tables_checked", 1);
  if got_flat != exp_sources {
    obs.fail("declared_sources", format!("{who}: announced {:?}, the map has {:?}", got_flat, exp_sources));
  }
  if with_names {
    let names: Vec<String> = rec.names().iter().map(|n| n.clone().unwrap_or("<missing>".into())).collect();
    if names != m.names {
      obs.fail("declared_names", format!("{who}: announced names {:?}, the map has {:?}", names, m.names));
    }
  }
}

fn check_one(spec: &Spec, who: &str, text: &str, m: &MapSpec, obs: &mut Obs) {
  let src = build_box(spec);
  let refr = reference(text, m);
  let exp_full = norm_table(attr_of_resolved(text, Some(&refr)));
  let nlines = lines_of(text).len();
  let exp_lines: Vec<Option<(String, u32)>> = (1..=nlines as u32).map(|l| refr.lookup_line(l)).collect();
  // (columns=true, final=false)
  let rec = record(&src, &MapOptions::new(true));
  if rec.text() == text {
    let got = norm_table(attr_of_stream(&rec));
    obs.count("positions_compared", text.len() as u64);
    if let Some(d) = first_diff(&got, &exp_full, false) {
      obs.fail("full_stream", format!("{who} columns=true: stream vs M: {d}; text {text:?}; M {:?}", m.mappings_string()));
    }
    if !text.is_empty() {
      check_tables(&rec, m, true, &format!("{who} columns=true"), obs);
    }
  } else {
    obs.count("skipped_text_differs(C01)", 1);
  }
  // (columns=true, final=true)
  let rec = record(&src, &map_options(true, true));
  let got = norm_table(attr_of_resolved(text, Some(&resolved_of_final_stream(&rec))));
  obs.count("positions_compared", text.len() as u64);
  if let Some(d) = first_diff(&got, &exp_full, false) {
    obs.fail("final_stream", format!("{who} columns=true final_source=true: stream vs M: {d}; text {text:?}; M {:?}", m.mappings_string()));
  }
  if !text.is_empty() {
    check_tables(&rec, m, true, &format!("{who} columns=true final"), obs);
  }
  // (columns=false, final=false): per line, first mapped chunk; names dropped
  for final_source in [false, true] {
    let rec = record(&src, &map_options(false, final_source));
    let r = resolved_of_final_stream(&rec);
    let got: Vec<Option<(String, u32)>> = (1..=nlines as u32).map(|l| r.lookup_line(l)).collect();
    obs.count("lines_compared", nlines as u64);
    if got != exp_lines {
      let i = got.iter().zip(&exp_lines).position(|(a, b)| a != b);
      obs.fail(
        if final_source { "lines_final_stream" } else { "lines_stream" },
        format!("{who} columns=false final_source={final_source}: line {:?}: stream {:?} vs M {:?}; text {text:?}; M {:?}", i.map(|i| i + 1), i.map(|i| &got[i]), i.map(|i| &exp_lines[i]), m.mappings_string()),
      );
    }
    if rec.chunks().any(|(_, s)| s.orig.as_ref().is_some_and(|o| o.name.is_some())) {
      obs.fail("lines_stream_has_names", format!("{who} columns=false final_source={final_source}: a chunk carries a name"));
    }
    if !final_source && rec.text() != text {
      obs.count("skipped_text_differs(C01)", 1);
    }
    if !text.is_empty() {
      check_tables(&rec, m, false, &format!("{who} columns=false final={final_source}"), obs);
    }
  }
}

fn check(case: &Value, obs: &mut Obs) {
  let text = case["text"].as_str().unwrap().to_string();
  let m: MapSpec = serde_json::from_value(case["map"].clone()).unwrap();
  let pieces: Vec<String> = serde_json::from_value(case["pieces"].clone()).unwrap();
  let prefix = case["prefix"].as_str().unwrap_or("").to_string();
  let sms = Spec::SourceMap {
    text: text.clone(),
    name: "sm.js".into(),
    map: m.clone(),
    original: None,
    inner: None,
    remove: false,
  };
  check_one(&sms, "SourceMapSource", &text, &m, obs);
  check_one(
    &Spec::Custom { pieces: vec![text.clone()], map: Some(m.clone()), use_rope: false },
    "custom source (&str)",
    &text,
    &m,
    obs,
  );
  check_one(
    &Spec::Custom { pieces: pieces.clone(), map: Some(m.clone()), use_rope: true },
    "custom source (multi-piece Rope)",
    &text,
    &m,
    obs,
  );
  // through map() of an enclosing ConcatSource (final-source path)
  let refr = reference(&text, &m);
  for columns in [true, false] {
    let concat = Spec::Concat {
      children: vec![Spec::raw(&prefix), sms.clone(), Spec::raw("")],
      how: How::NewBoxed,
    };
    let src = build_box(&concat);
    let out = src.source().to_string();
    let map = src.map(&MapOptions::new(columns));
    let got = match map.as_ref().map(Resolved::from_map) {
      Some(Err(e)) => {
        obs.fail("enclosing_map_undecodable", e);
        continue;
      }
      Some(Ok(r)) => Some(r),
      None => None,
    };
    // position shift introduced by the prefix
    let (pl, pc) = crate::model::attr::end_position(&prefix);
    let mut bad = None;
    for (li, l) in lines_of(&text).iter().enumerate() {
      let ol = li as u32 + pl;
      if columns {
        for c in 0..l.len() as u32 {
          let oc = if li == 0 { c + pc } else { c };
          let exp = norm(&refr.lookup(li as u32 + 1, c));
          let g = norm(&got.as_ref().map_or(At::Un, |r| r.lookup(ol, oc)));
          obs.count("positions_compared", 1);
          if exp != g && bad.is_none() {
            bad = Some(format!("T position {}:{} (output {}:{}): M says {:?}, map() of the ConcatSource says {:?}", li + 1, c, ol, oc, exp, g));
          }
        }
      } else if !(li == 0 && pc > 0) {
        // a line shared with the prefix keeps the first mapped piece rule; only
        // lines that consist of T's text alone are compared
        let exp = refr.lookup_line(li as u32 + 1);
        let g = got.as_ref().and_then(|r| r.lookup_line(ol));
        obs.count("lines_compared", 1);
        if exp != g && bad.is_none() {
          bad = Some(format!("T line {} (output line {}): M says {:?}, map() of the ConcatSource says {:?}", li + 1, ol, exp, g));
        }
      }
    }
    if let Some(b) = bad {
      obs.fail(
        if columns { "enclosing_map_columns" } else { "enclosing_map_lines" },
        format!("columns={columns} prefix {prefix:?}: {b}; text {text:?}; M {:?}; concat mappings {:?}; out {out:?}", m.mappings_string(), map.as_ref().map(|m| m.mappings().to_string())),
      );
    }
  }
  // classes
  if m.source_root.is_some() {
    obs.class("source_root");
  }
  if m.segs.iter().any(|s| s.orig.is_none()) {
    obs.class("one_field_segment");
  }
  let lines = lines_of(&text);
  if m.segs.iter().any(|s| (s.gl as usize) <= lines.len() && s.gc as usize == lines[s.gl as usize - 1].len()) {
    obs.class("zero_width_end_of_line");
  }
  if m.segs.iter().any(|s| s.gl as usize > lines.len()) {
    obs.class("zero_width_end_of_text");
  }
  if text.is_empty() {
    obs.class("empty_text");
  }
  let mapped_on_text = m.segs.iter().filter(|s| s.orig.is_some() && (s.gl as usize) <= lines.len() && (s.gc as usize) < lines[s.gl as usize - 1].len()).count();
  let exp_full = attr_of_resolved(&text, Some(&refr));
  let unmapped = exp_full.iter().flatten().any(|a| *a == At::Un);
  if mapped_on_text >= 2 && unmapped {
    obs.nontrivial();
  }
}
