//! C04 — mappings point to where the text really came from (byte provenance).

use std::collections::HashMap;

use rspack_sources::MapOptions;
use serde_json::{json, Value};

use super::{PanicPolicy, PropDef, Tier};
use crate::{
  gen::{gen_case, GenCfg},
  model::{
    attr::{At, Resolved},
    prov::{provenance, Origin},
  },
  obs::Obs,
  rng::Rng,
  spec::Spec,
};

pub fn def() -> PropDef {
  PropDef {
    id: "C04",
    gen,
    check,
    panic_policy: PanicPolicy::Count,
    rule: "random ASCII trees over {Raw*, Original, Concat, Replace, Cached (not beneath a ReplaceSource), Boxed}, file-name pool with one fixed content per name, all replacement classes; ground truth = byte provenance computed from the spec by the concat/splice models; clauses a-f of DESIGN C04 are evaluated on the independently decoded map(); non-trivial = >= 1 surviving original character, >= 1 raw character and a composite; trees repeat an earlier sibling now and then and, in every second case, equal Cached nodes of the tree under test are one shared instance / clones sharing one cache; the object is used before the checked call by a random prelude of 0-3 observer calls; distinct = spec fingerprint",
    cases: |t| match t {
      Tier::Quick => 150_000,
      Tier::Thorough => 2_000_000,
    },
  }
}

fn gen(rng: &mut Rng, tier: Tier) -> Value {
  let depth = match tier {
    Tier::Quick => rng.range(1, 3),
    Tier::Thorough => rng.range(1, 5),
  };
  let mut cfg = GenCfg::ascii_consistent(depth);
  cfg.sourcemap_leaves = false;
  cfg.custom_leaves = false;
  cfg.cached_under_replace = false;
  if rng.chance(1, 3) {
    cfg.max_text = 14;
  }
  json!({ "spec": gen_case(rng, &cfg), "prelude": super::gen_prelude(rng), "share_instances": rng.chance(1, 2) })
}

fn check(case: &Value, obs: &mut Obs) {
  let spec = super::spec_of(case);
  let src = super::build_under_test(case, &spec, obs);
  super::run_prelude(case, &src, obs);
  let prov = provenance(&spec);
  let text: String = String::from_utf8_lossy(&prov.iter().map(|p| p.0).collect::<Vec<u8>>()).to_string();
  let source = src.source().to_string();
  if text != source {
    obs.count("skipped_text_model_differs(C05/C07)", 1);
    return;
  }
  // position table: (line, col) -> index into prov
  let mut pos_of: Vec<(u32, u32)> = Vec::with_capacity(prov.len());
  let mut index_at: HashMap<(u32, u32), usize> = HashMap::new();
  let (mut line, mut col) = (1u32, 0u32);
  for (i, (b, _)) in prov.iter().enumerate() {
    pos_of.push((line, col));
    index_at.insert((line, col), i);
    if *b == b'\n' {
      line += 1;
      col = 0;
    } else {
      col += 1;
    }
  }
  let mut file_content: HashMap<String, String> = HashMap::new();
  spec.walk(&mut |s| {
    if let Spec::Original { text, name } = s {
      file_content.insert(name.clone(), text.clone());
    }
  });
  let has_replace = spec.contains(&|s| matches!(s, Spec::Replace { .. }));
  let mut orig_chars = 0u64;
  let mut raw_chars = 0u64;

  // ---- columns = true
  let map = src.map(&MapOptions::new(true));
  let resolved = match &map {
    Some(m) => match Resolved::from_map(m) {
      Ok(r) => Some(r),
      Err(e) => {
        obs.fail("map_undecodable", e);
        return;
      }
    },
    None => None,
  };
  let mappings = map.as_ref().map(|m| m.mappings().to_string());
  let ctx = |what: String| format!("{what}; mappings {mappings:?}; text {source:?}");
  if let Some(r) = &resolved {
    // (a) every mapped segment starts on a character of exactly that origin
    for seg in r.lines.iter().flatten() {
      if seg.orig.is_none() {
        continue;
      }
      let Some(&i) = index_at.get(&(seg.gl, seg.gc)) else {
        continue; // not on a character: C11's business
      };
      obs.count("a_segments_checked", 1);
      let at = r.resolve(seg);
      match (&prov[i].1, &at) {
        (Origin::Repl, _) => obs.count("a_segments_on_replacement(dont_care)", 1),
        (Origin::Raw, _) => {
          obs.fail("a_mapped_segment_on_raw_text", ctx(format!("segment at {}:{} -> {:?} starts on raw text", seg.gl, seg.gc, at.without_content())));
        }
        (Origin::Orig { file, line, col, .. }, At::Map { file: f, line: l, col: c, .. }) => {
          if f != file || l != line || c != col {
            obs.fail("a_segment_target_wrong", ctx(format!("segment at {}:{} points to {f}:{l}:{c}, the character there comes from {file}:{line}:{col}", seg.gl, seg.gc)));
          }
        }
        _ => {}
      }
    }
    // (e) tables
    let mut seen = std::collections::HashSet::new();
    for (i, s) in r.sources.iter().enumerate() {
      obs.count("e_sources_checked", 1);
      if !seen.insert(s.clone()) {
        obs.fail("e_source_listed_twice", ctx(format!("sources {:?}", r.sources)));
      }
      match file_content.get(s) {
        None => obs.fail("e_unknown_source", ctx(format!("source {s:?} is not a file of the tree"))),
        Some(c) => {
          let listed = r.contents.get(i).cloned().flatten().unwrap_or_default();
          if &listed != c {
            obs.fail("e_content_wrong", ctx(format!("source {s:?} listed with content {listed:?}, real content {c:?}")));
          }
        }
      }
    }
  }
  for (i, (_, origin)) in prov.iter().enumerate() {
    let (l, c) = pos_of[i];
    let at = resolved.as_ref().map_or(At::Un, |r| r.lookup(l, c));
    match origin {
      Origin::Raw => {
        raw_chars += 1;
        obs.count("c_raw_chars_checked", 1);
        // (c) raw text is unmapped
        if at != At::Un {
          obs.fail("c_raw_text_mapped", ctx(format!("raw character at {l}:{c} resolves to {:?}", at.without_content())));
          break;
        }
      }
      Origin::Repl => {}
      Origin::Orig { file, line, col, token_start, lone_newline } => {
        if *lone_newline {
          // the "\n" of an empty line is a token of its own that the
          // documented splitting rule leaves unmapped (see DESIGN C04)
          obs.count("b_lone_newlines(dont_care)", 1);
          continue;
        }
        orig_chars += 1;
        obs.count("b_original_chars_checked", 1);
        match &at {
          At::Map { file: f, line: ln, col: cl, .. } => {
            // (b) own file and line, column not after it
            if f != file || ln != line || cl > col {
              obs.fail("b_original_char_wrong", ctx(format!("character at {l}:{c} comes from {file}:{line}:{col} but resolves to {f}:{ln}:{cl}")));
              break;
            }
            // (d) statement starts resolve exactly
            if *token_start {
              obs.count("d_statement_starts_checked", 1);
              if cl != col {
                obs.fail("d_statement_start_inexact", ctx(format!("statement start at {l}:{c} is {file}:{line}:{col} but resolves to column {cl}")));
                break;
              }
            }
          }
          At::Un => {
            obs.fail("b_original_char_unmapped", ctx(format!("character at {l}:{c} comes from {file}:{line}:{col} but is unmapped")));
            break;
          }
        }
      }
    }
  }

  // ---- columns = false, trees without ReplaceSource
  if !has_replace {
    let map0 = src.map(&MapOptions::new(false));
    match map0.as_ref().map(Resolved::from_map) {
      Some(Err(e)) => obs.fail("map_undecodable", e),
      r0 => {
        let r0 = r0.map(|r| r.unwrap());
        let nlines = pos_of.last().map_or(0, |p| p.0);
        for l in 1..=nlines {
          let first_orig = prov.iter().enumerate().find_map(|(i, (_, o))| match o {
            Origin::Orig { file, line, .. } if pos_of[i].0 == l => Some((file.clone(), *line)),
            _ => None,
          });
          if let Some(exp) = first_orig {
            obs.count("f_lines_checked", 1);
            let got = r0.as_ref().and_then(|r| r.lookup_line(l));
            if got.as_ref() != Some(&exp) {
              obs.fail("f_line_attribution", format!("columns=false: line {l} has first original text from {exp:?} but resolves to {got:?}; mappings {:?}; text {source:?}", map0.as_ref().map(|m| m.mappings().to_string())));
              break;
            }
          }
        }
      }
    }
  }
  spec.walk(&mut |s| obs.class(s.kind()));
  super::c02::classify_ops(&spec, obs);
  if orig_chars > 0 && raw_chars > 0 && super::c01::is_composite(&spec) {
    obs.nontrivial();
  }
}
