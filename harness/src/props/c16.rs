//! C16 — Rope behaves exactly like the string it represents.

use rspack_sources::Rope;
use serde::{Deserialize, Serialize};
use serde_json::{json, Value};

use super::{PanicPolicy, PropDef, Tier};
use crate::{obs::Obs, rng::Rng};

pub const PIECES: &[&str] = &["", "a", "\n", "é", "b\n", "→c", "😀", "ab", "x\ny", "\n\n"];
const SMALL: usize = 7; // pieces used by the exhaustive part

#[derive(Clone, Debug, Serialize, Deserialize)]
pub enum Prog {
  New,
  From(usize),
  FromIter(Vec<usize>),
  Add(Box<Prog>, usize),
  Append(Box<Prog>, Box<Prog>),
  /// byte_slice(a..b) where a, b index the char boundaries of the value (clamped)
  Slice(Box<Prog>, usize, usize),
  /// k-th element of lines() (clamped)
  Line(Box<Prog>, usize),
}

pub fn def() -> PropDef {
  PropDef {
    id: "C16",
    gen,
    check,
    panic_policy: PanicPolicy::Violation,
    rule: "exhaustive small scope first: every rope built by from_iter / new+add / from+add over <=3 (quick) / <=4 (thorough) pieces from {\"\", \"a\", \"\\n\", \"é\", \"b\\n\", \"→c\", \"😀\"} and every append of two such ropes of <=2 pieces; for each: all unary observers, get_byte(i) for every i, get_byte_slice for every (start,end) pair incl. reversed / out of bounds / non-boundary and in every start/end bound kind (a..=b, ..=b, excluded start, unbounded; endpoints up to usize::MAX), every valid slice and every lines() element re-observed (derivation depth 2 for slices), binary observers (starts_with, ==, both str impls) against every differently chunked prefix / equal / unequal rope incl. same-length partners that differ in one character or only in character structure; then random longer programs (add/append/slice/line nesting to depth 6); non-trivial = rope has >= 2 pieces and a multi-byte or empty piece; distinct = program fingerprint",
    cases: |t| match t {
      Tier::Quick => 60_000,
      Tier::Thorough => 600_000,
    },
  }
}

fn base_count(max_pieces: usize) -> usize {
  (0..=max_pieces).map(|k| SMALL.pow(k as u32)).sum()
}

fn nth_seq(mut n: usize, max_pieces: usize) -> Vec<usize> {
  // n-th sequence over SMALL symbols of length 0..=max_pieces
  let mut k = 0;
  loop {
    let c = SMALL.pow(k as u32);
    if n < c || k == max_pieces {
      break;
    }
    n -= c;
    k += 1;
  }
  let mut v = Vec::new();
  for _ in 0..k {
    v.push(n % SMALL);
    n /= SMALL;
  }
  v
}

/// The exhaustive enumeration: index -> program.
pub fn enumerate(index: u64, tier: Tier) -> Option<Prog> {
  let maxp = if tier == Tier::Quick { 3 } else { 4 };
  let n = base_count(maxp);
  let small = base_count(2);
  let mut i = index as usize;
  if i < n {
    return Some(Prog::FromIter(nth_seq(i, maxp)));
  }
  i -= n;
  if i < n {
    let seq = nth_seq(i, maxp);
    let mut p = Prog::New;
    for s in seq {
      p = Prog::Add(Box::new(p), s);
    }
    return Some(p);
  }
  i -= n;
  if i < n {
    let seq = nth_seq(i, maxp);
    let mut it = seq.into_iter();
    let mut p = match it.next() {
      Some(f) => Prog::From(f),
      None => Prog::New,
    };
    for s in it {
      p = Prog::Add(Box::new(p), s);
    }
    return Some(p);
  }
  i -= n;
  // appends: operand = FromIter(<=2) | From(p) | New  (small + SMALL + 1 shapes)
  let shapes = small + SMALL + 1;
  if i < shapes * shapes {
    let mk = |j: usize| {
      if j < small {
        Prog::FromIter(nth_seq(j, 2))
      } else if j < small + SMALL {
        Prog::From(j - small)
      } else {
        Prog::New
      }
    };
    return Some(Prog::Append(Box::new(mk(i / shapes)), Box::new(mk(i % shapes))));
  }
  None
}

fn gen_prog(rng: &mut Rng, depth: usize) -> Prog {
  let np = PIECES.len();
  if depth == 0 {
    if rng.chance(1, 25) {
      // many pieces (binary searches / fast paths beyond small piece counts)
      return Prog::FromIter((0..rng.range(33, 90)).map(|_| rng.below(np)).collect());
    }
    return match rng.below(3) {
      0 => Prog::New,
      1 => Prog::From(rng.below(np)),
      _ => Prog::FromIter((0..rng.below(5)).map(|_| rng.below(np)).collect()),
    };
  }
  match rng.below(10) {
    0..=2 => Prog::Add(Box::new(gen_prog(rng, depth - 1)), rng.below(np)),
    3..=5 => {
      let d2 = rng.below(depth);
      Prog::Append(
        Box::new(gen_prog(rng, depth - 1)),
        Box::new(gen_prog(rng, d2)),
      )
    }
    6..=7 => Prog::Slice(Box::new(gen_prog(rng, depth - 1)), rng.below(12), rng.below(12)),
    8 => Prog::Line(Box::new(gen_prog(rng, depth - 1)), rng.below(4)),
    _ => gen_prog(rng, 0),
  }
}

fn gen(rng: &mut Rng, tier: Tier) -> Value {
  // the worker passes the global case number through the first draw
  let depth = rng.range(1, if tier == Tier::Quick { 4 } else { 6 });
  json!({ "prog": gen_prog(rng, depth) })
}

pub fn enum_case(index: u64, tier: Tier) -> Option<Value> {
  enumerate(index, tier).map(|p| json!({ "prog": p, "exhaustive_index": index }))
}

fn boundaries(s: &str) -> Vec<usize> {
  let mut v: Vec<usize> = s.char_indices().map(|(i, _)| i).collect();
  v.push(s.len());
  v
}

fn model_lines(m: &str) -> Vec<String> {
  let mut v: Vec<String> = m.split_inclusive('\n').map(|s| s.to_string()).collect();
  if m.is_empty() || m.ends_with('\n') {
    v.push(String::new());
  }
  v
}

/// Build the rope and its model string.
pub fn eval(p: &Prog) -> (Rope<'static>, String) {
  match p {
    Prog::New => (Rope::new(), String::new()),
    Prog::From(i) => (Rope::from(PIECES[*i]), PIECES[*i].to_string()),
    Prog::FromIter(v) => (
      Rope::from_iter(v.iter().map(|i| PIECES[*i])),
      v.iter().map(|i| PIECES[*i]).collect(),
    ),
    Prog::Add(inner, i) => {
      let (mut r, mut m) = eval(inner);
      r.add(PIECES[*i]);
      m.push_str(PIECES[*i]);
      (r, m)
    }
    Prog::Append(a, b) => {
      let (mut r, mut m) = eval(a);
      let (r2, m2) = eval(b);
      r.append(r2);
      m.push_str(&m2);
      (r, m)
    }
    Prog::Slice(inner, a, b) => {
      let (r, m) = eval(inner);
      let bs = boundaries(&m);
      let (mut s, mut e) = (bs[*a % bs.len()], bs[*b % bs.len()]);
      if s > e {
        std::mem::swap(&mut s, &mut e);
      }
      (r.byte_slice(s..e), m[s..e].to_string())
    }
    Prog::Line(inner, k) => {
      let (r, m) = eval(inner);
      let ml = model_lines(&m);
      let k = *k % ml.len();
      let lines: Vec<Rope<'static>> = r.lines().collect();
      match lines.get(k) {
        Some(l) => (l.clone(), ml[k].clone()),
        // wrong line count is reported by the observers of the parent;
        // continue with an empty rope
        None => (Rope::new(), String::new()),
      }
    }
  }
}

/// All ways to write `s` as a rope with <= 3 pieces (pieces leaked: tiny).
fn chunkings(s: &str) -> Vec<Rope<'static>> {
  let st: &'static str = Box::leak(s.to_string().into_boxed_str());
  let mut v = vec![Rope::from(st), Rope::from_iter([st])];
  let bs = boundaries(st);
  for &i in &bs {
    v.push(Rope::from_iter([&st[..i], &st[i..]]));
    let mut r = Rope::from(&st[..i]);
    r.add(&st[i..]);
    v.push(r);
    let mut r = Rope::new();
    r.append(Rope::from(&st[..i]));
    r.append(Rope::from_iter([&st[i..]]));
    v.push(r);
  }
  if bs.len() >= 3 {
    let (i, j) = (bs[1], bs[bs.len() - 2]);
    if i <= j {
      v.push(Rope::from_iter([&st[..i], &st[i..j], &st[j..]]));
    }
  }
  v
}

fn unary(r: &Rope<'static>, m: &str, who: &str, obs: &mut Obs) {
  obs.count("unary_observations", 1);
  if r.len() != m.len() {
    obs.fail("len", format!("{who}: len() = {}, string {:?} has {}", r.len(), m, m.len()));
  }
  if r.is_empty() != m.is_empty() {
    obs.fail("is_empty", format!("{who}: is_empty() = {} for {:?}", r.is_empty(), m));
  }
  if r.to_string() != m {
    obs.fail("to_string", format!("{who}: to_string() = {:?}, expected {:?}", r.to_string(), m));
  }
  if &*r.to_bytes() != m.as_bytes() {
    obs.fail("to_bytes", format!("{who}: to_bytes() differs for {:?}", m));
  }
  for i in 0..m.len() + 2 {
    let exp = m.as_bytes().get(i).copied();
    if r.get_byte(i) != exp {
      obs.fail("get_byte", format!("{who}: get_byte({i}) = {:?}, expected {:?} for {:?}", r.get_byte(i), exp, m));
      break;
    }
    if exp.is_some() && r.byte(i) != exp.unwrap() {
      obs.fail("byte", format!("{who}: byte({i}) wrong for {:?}", m));
      break;
    }
  }
  let ci: Vec<(usize, char)> = r.char_indices().collect();
  let mi: Vec<(usize, char)> = m.char_indices().collect();
  if ci != mi {
    obs.fail("char_indices", format!("{who}: char_indices() = {:?}, expected {:?}", ci, mi));
  }
  let ls: Vec<String> = r.lines().map(|l| l.to_string()).collect();
  let ml = model_lines(m);
  if ls != ml {
    obs.fail("lines", format!("{who}: lines() = {:?}, expected {:?} for {:?}", ls, ml, m));
  }
  for ch in ['\n', 'a', 'é', '😀', 'c', 'y'] {
    if r.ends_with(ch) != m.ends_with(ch) {
      obs.fail("ends_with", format!("{who}: ends_with({ch:?}) = {} for {:?}", r.ends_with(ch), m));
    }
  }
  if !(r == m) || !(*r == *m) {
    obs.fail("eq_str", format!("{who}: rope != its own string {:?}", m));
  }
}

fn slices(r: &Rope<'static>, m: &str, who: &str, depth: usize, obs: &mut Obs) {
  let n = m.len();
  for s in 0..=n + 1 {
    for e in 0..=n + 1 {
      obs.count("slice_ranges", 1);
      let exp = if s <= e { m.get(s..e) } else { None };
      let got = r.get_byte_slice(s..e);
      match (exp, got) {
        (None, None) => {}
        (Some(x), Some(g)) => {
          if g.to_string() != x {
            obs.fail("get_byte_slice_value", format!("{who}: get_byte_slice({s}..{e}) = {:?}, expected {:?} of {:?}", g.to_string(), x, m));
            return;
          }
          if depth > 0 && x.len() <= 6 {
            let w = format!("{who}.byte_slice({s}..{e})");
            unary(&g, x, &w, obs);
            if depth > 1 {
              slices(&g, x, &w, depth - 1, obs);
            }
          } else if depth > 0 {
            unary(&g, x, &format!("{who}.byte_slice({s}..{e})"), obs);
          }
        }
        (None, Some(g)) => {
          obs.fail("get_byte_slice_should_be_none", format!("{who}: get_byte_slice({s}..{e}) = Some({:?}) but the range is invalid for {:?}", g.to_string(), m));
          return;
        }
        (Some(x), None) => {
          obs.fail("get_byte_slice_should_be_some", format!("{who}: get_byte_slice({s}..{e}) = None, expected {:?} of {:?}", x, m));
          return;
        }
      }
    }
  }
  // other range kinds
  for s in 0..=n {
    if let Some(x) = m.get(s..) {
      if r.get_byte_slice(s..).map(|g| g.to_string()) != Some(x.to_string()) {
        obs.fail("get_byte_slice_from", format!("{who}: get_byte_slice({s}..) wrong for {:?}", m));
      }
    } else if r.get_byte_slice(s..).is_some() {
      obs.fail("get_byte_slice_from", format!("{who}: get_byte_slice({s}..) should be None for {:?}", m));
    }
    if let Some(x) = m.get(..s) {
      if r.get_byte_slice(..s).map(|g| g.to_string()) != Some(x.to_string()) {
        obs.fail("get_byte_slice_to", format!("{who}: get_byte_slice(..{s}) wrong for {:?}", m));
      }
    } else if r.get_byte_slice(..s).is_some() {
      obs.fail("get_byte_slice_to", format!("{who}: get_byte_slice(..{s}) should be None for {:?}", m));
    }
  }
  if r.get_byte_slice(..).map(|g| g.to_string()) != Some(m.to_string()) {
    obs.fail("get_byte_slice_full", format!("{who}: get_byte_slice(..) wrong for {:?}", m));
  }
  bound_kinds(r, m, who, obs);
}

/// Every combination of start / end bound kinds (`a..=b`, `..=b`, excluded
/// starts) with endpoints around the length and at the extremes of usize;
/// the expectation is what the flat string answers for the same bounds.
pub fn bound_kinds(r: &Rope<'static>, m: &str, who: &str, obs: &mut Obs) {
  use std::ops::Bound;
  let n = m.len();
  let mut pts: Vec<usize> = (0..=n + 1).collect();
  pts.extend([usize::MAX - 1, usize::MAX]);
  let mk = |kind: usize, v: usize| match kind {
    0 => Bound::Included(v),
    1 => Bound::Excluded(v),
    _ => Bound::Unbounded,
  };
  for sk in 0..3 {
    for ek in 0..3 {
      if sk == 0 && ek == 1 {
        // a..b is covered above
        continue;
      }
      for &s in if sk == 2 { &pts[..1] } else { &pts[..] } {
        for &e in if ek == 2 { &pts[..1] } else { &pts[..] } {
          obs.count("slice_bound_kind_ranges", 1);
          let (sb, eb) = (mk(sk, s), mk(ek, e));
          let lo = match sb {
            Bound::Included(v) => Some(v),
            Bound::Excluded(v) => v.checked_add(1),
            Bound::Unbounded => Some(0),
          };
          let hi = match eb {
            Bound::Included(v) => v.checked_add(1),
            Bound::Excluded(v) => Some(v),
            Bound::Unbounded => Some(n),
          };
          let exp = match (lo, hi) {
            (Some(a), Some(b)) if a <= b => m.get(a..b),
            _ => None,
          };
          let got = r.get_byte_slice((sb, eb)).map(|g| g.to_string());
          if got.as_deref() != exp {
            obs.fail(
              "get_byte_slice_bound_kinds",
              format!("{who}: get_byte_slice(({sb:?}, {eb:?})) = {got:?}, expected {exp:?} of {m:?}"),
            );
            return;
          }
        }
      }
    }
  }
}

fn binary(r: &Rope<'static>, m: &str, who: &str, obs: &mut Obs) {
  // prefixes in every chunking, and near misses
  let bs = boundaries(m);
  let mut others: Vec<String> = bs.iter().map(|i| m[..*i].to_string()).collect();
  others.push(format!("{m}a"));
  others.push(format!("a{m}"));
  if let Some(&i) = bs.get(bs.len().saturating_sub(2)) {
    others.push(format!("{}é", &m[..i]));
    others.push(format!("{}\n", &m[..i]));
  }
  if m.len() >= 2 {
    // same length, different content
    let mut t = m.to_string();
    let last = t.pop().unwrap();
    let rep = if last == 'a' { 'b' } else { 'a' };
    if rep.len_utf8() == last.len_utf8() {
      t.push(rep);
      others.push(t);
    }
  }
  // same length, one character (of the same byte length) changed anywhere:
  // the difference must be found wherever it falls relative to the piece
  // borders of both operands
  for (i, ch) in m.char_indices().take(12) {
    let rep = match ch.len_utf8() {
      1 => {
        if ch == 'b' {
          'a'
        } else {
          'b'
        }
      }
      2 => {
        if ch == 'ü' {
          'é'
        } else {
          'ü'
        }
      }
      3 => {
        if ch == '中' {
          '→'
        } else {
          '中'
        }
      }
      _ => {
        if ch == '😁' {
          '😀'
        } else {
          '😁'
        }
      }
    };
    let mut t = String::with_capacity(m.len());
    t.push_str(&m[..i]);
    t.push(rep);
    t.push_str(&m[i + ch.len_utf8()..]);
    if t.len() == m.len() && t != m {
      others.push(t);
    }
  }
  // same byte length, different character structure: a piece border of one
  // operand falls inside a multi-byte character of the other
  let cs: Vec<(usize, char)> = m.char_indices().collect();
  for (k, (i, ch)) in cs.iter().enumerate().take(12) {
    let w = ch.len_utf8();
    let mut variants: Vec<(usize, &str)> = Vec::new(); // (bytes replaced, replacement)
    match w {
      1 => {
        if cs.get(k + 1).is_some_and(|(_, c)| c.len_utf8() == 1) {
          variants.push((2, "é"));
        }
      }
      2 => variants.push((2, "ab")),
      3 => {
        variants.push((3, "éa"));
        variants.push((3, "aé"));
      }
      _ => {
        variants.push((4, "éü"));
        variants.push((4, "a→"));
      }
    }
    for (n, rep) in variants {
      let t = format!("{}{}{}", &m[..*i], rep, &m[i + n..]);
      debug_assert_eq!(t.len(), m.len());
      if t != m {
        others.push(t);
      }
    }
  }
  for o in &others {
    for (ci, other) in chunkings(o).iter().enumerate() {
      obs.count("binary_observations", 1);
      let exp_sw = m.starts_with(o.as_str());
      if r.starts_with(other) != exp_sw {
        obs.fail("starts_with", format!("{who} ({:?}) .starts_with(chunking {ci} of {:?}) = {}, expected {}", m, o, r.starts_with(other), exp_sw));
        return;
      }
      let exp_eq = m == o.as_str();
      if (r == other) != exp_eq || (other == r) != exp_eq {
        obs.fail("eq_rope", format!("{who} ({:?}) == chunking {ci} of {:?}: {} / {}, expected {}", m, o, r == other, other == r, exp_eq));
        return;
      }
      // both string impls: PartialEq<&str> and PartialEq<str>
      if (*r == o.as_str()) != exp_eq || (*r == *o.as_str()) != exp_eq {
        obs.fail("eq_str", format!("{who} ({:?}) == str {:?}: expected {}", m, o, exp_eq));
        return;
      }
    }
  }
}

fn shape(p: &Prog) -> (usize, bool) {
  // (number of leaf pieces, has an empty or multi-byte piece)
  match p {
    Prog::New => (0, false),
    Prog::From(i) => (1, PIECES[*i].is_empty() || !PIECES[*i].is_ascii()),
    Prog::FromIter(v) => (v.len(), v.iter().any(|i| PIECES[*i].is_empty() || !PIECES[*i].is_ascii())),
    Prog::Add(a, i) => {
      let (n, s) = shape(a);
      (n + 1, s || PIECES[*i].is_empty() || !PIECES[*i].is_ascii())
    }
    Prog::Append(a, b) => {
      let (n1, s1) = shape(a);
      let (n2, s2) = shape(b);
      (n1 + n2, s1 || s2)
    }
    Prog::Slice(a, _, _) | Prog::Line(a, _) => shape(a),
  }
}

fn check(case: &Value, obs: &mut Obs) {
  let prog: Prog = serde_json::from_value(case["prog"].clone()).unwrap();
  let (r, m) = eval(&prog);
  if m.len() > 64 {
    // long ropes: unary observers and a sample of slices only (quadratic otherwise)
    obs.class("many_pieces_or_long");
    unary(&r, &m, "rope", obs);
    let bs = boundaries(&m);
    for w in bs.windows(2).step_by(3) {
      let (s0, e0) = (w[0], *bs.last().unwrap());
      for (a, b) in [(s0, w[1]), (0, w[1]), (s0, e0)] {
        let got = r.get_byte_slice(a..b).map(|g| g.to_string());
        if got.as_deref() != m.get(a..b) {
          obs.fail("get_byte_slice_value", format!("rope: get_byte_slice({a}..{b}) = {got:?}, expected {:?}", m.get(a..b)));
          return;
        }
      }
    }
    let half = bs[bs.len() / 2];
    let other = Rope::from_iter([&*Box::leak(m[..half].to_string().into_boxed_str()), &*Box::leak(m[half..].to_string().into_boxed_str())]);
    if !r.starts_with(&other) || r != other || !(r == *m.as_str()) {
      obs.fail("eq_rope", format!("long rope differs from a two-piece rope of the same text {m:?}"));
    }
    let (n, special) = shape(&prog);
    if n >= 2 && special {
      obs.nontrivial();
    }
    return;
  }
  unary(&r, &m, "rope", obs);
  slices(&r, &m, "rope", if m.len() <= 8 { 2 } else { 1 }, obs);
  binary(&r, &m, "rope", obs);
  for (k, (l, ml)) in r.lines().zip(model_lines(&m)).enumerate() {
    let w = format!("rope.lines()[{k}]");
    unary(&l, &ml, &w, obs);
    if ml.len() <= 8 {
      slices(&l, &ml, &w, 1, obs);
    }
  }
  if case.get("exhaustive_index").is_some() {
    obs.class("exhaustive");
  } else {
    obs.class("random_program");
  }
  let (n, special) = shape(&prog);
  if m.is_empty() && n >= 1 {
    obs.class("empty_multi_piece");
  }
  if n >= 2 && special {
    obs.nontrivial();
  }
}
