//! C02 — reported generated positions are the true positions.

use rspack_sources::{verif::map_options, MapOptions};
use serde_json::{json, Value};

use super::{PanicPolicy, PropDef, Tier};
use crate::{
  gen::{gen_case, GenCfg},
  model::attr::{end_position, lines_of},
  obs::Obs,
  record::record,
  rng::Rng,
  spec::Spec,
};

pub fn def() -> PropDef {
  PropDef {
    id: "C02",
    gen,
    check,
    panic_policy: PanicPolicy::Count,
    rule: "random ASCII source trees with consistent leaf maps (depth <=3 quick / <=5 thorough), replacement sets biased to deleting/inserting line breaks at column 0 and >0, overlaps, positions beyond the end; non-trivial = a composite (Concat >=2 children or Replace with >=1 op) and >=2 chunks whose reported position was compared with the scanned position on a line > 1 or column > 0; trees repeat an earlier sibling now and then and, in every second case, equal Cached nodes of the tree under test are one shared instance / clones sharing one cache; distinct = spec fingerprint",
    cases: |t| match t {
      Tier::Quick => 200_000,
      Tier::Thorough => 3_000_000,
    },
  }
}

pub fn ascii_tree_case(rng: &mut Rng, tier: Tier) -> Spec {
  let depth = match tier {
    Tier::Quick => rng.range(1, 3),
    Tier::Thorough => rng.range(1, 5),
  };
  let mut cfg = GenCfg::ascii_consistent(depth);
  if rng.chance(1, 3) {
    cfg.max_text = 16;
  }
  if tier == Tier::Thorough && rng.chance(1, 5) {
    cfg.max_text = 120;
  }
  gen_case(rng, &cfg)
}

fn gen(rng: &mut Rng, tier: Tier) -> Value {
  json!({ "spec": ascii_tree_case(rng, tier), "share_instances": rng.chance(1, 2) })
}

fn check(case: &Value, obs: &mut Obs) {
  let spec = super::spec_of(case);
  let src = super::build_under_test(case, &spec, obs);
  let source = src.source().to_string();
  let true_end = end_position(&source);
  let lines = lines_of(&source);
  let mut compared_interesting = 0u64;
  for round in 0..3 {
    for columns in [true, false] {
      // mode with text: every chunk starts where the scan says
      let rec = record(&src, &MapOptions::new(columns));
      let (mut line, mut col) = (1u32, 0u32);
      for (text, seg) in rec.chunks() {
        let Some(text) = text else { continue };
        obs.count("positions_compared", 1);
        if (seg.gl, seg.gc) != (line, col) {
          obs.fail(
            "chunk_position",
            format!(
              "columns={columns} round={round}: chunk {:?} reported at {}:{}, really starts at {}:{}",
              text, seg.gl, seg.gc, line, col
            ),
          );
          break;
        }
        if line > 1 || col > 0 {
          compared_interesting += 1;
        }
        for b in text.bytes() {
          if b == b'\n' {
            line += 1;
            col = 0;
          } else {
            col += 1;
          }
        }
      }
      if rec.end != true_end {
        obs.fail(
          "generated_info",
          format!(
            "columns={columns} round={round} final_source=false: returned end {:?}, text ends at {:?} (text {:?})",
            rec.end, true_end, source
          ),
        );
      }
      // text-less mode (what map() and enclosing sources use)
      let rec = record(&src, &map_options(columns, true));
      if rec.end != true_end {
        obs.fail(
          "generated_info_final",
          format!(
            "columns={columns} round={round} final_source=true: returned end {:?}, text ends at {:?} (text {:?})",
            rec.end, true_end, source
          ),
        );
      }
      for (_, seg) in rec.chunks() {
        obs.count("final_positions_checked", 1);
        let ok = seg.gl >= 1
          && (seg.gl as usize) <= lines.len()
          && (seg.gc as usize) < lines[seg.gl as usize - 1].len();
        if !ok {
          obs.fail(
            "final_position_outside_text",
            format!(
              "columns={columns} round={round}: text-less chunk at {}:{} is not a position of the text {:?}",
              seg.gl, seg.gc, source
            ),
          );
          break;
        }
      }
    }
  }
  spec.walk(&mut |s| obs.class(s.kind()));
  classify_ops(&spec, obs);
  if compared_interesting >= 2 && super::c01::is_composite(&spec) {
    obs.nontrivial();
  }
}

/// Replacement classes seen (for the evidence histogram).
pub fn classify_ops(spec: &Spec, obs: &mut Obs) {
  spec.walk(&mut |s| {
    if let Spec::Replace { inner, ops } = s {
      let t = inner.model_text();
      let tb = t.as_bytes();
      for op in ops {
        let (s0, e0) = (op.start as usize, op.end as usize);
        if s0 == e0 {
          obs.class("op:insertion");
        } else if op.content.is_empty() {
          obs.class("op:deletion");
        }
        if s0 >= t.len() {
          obs.class("op:beyond_end");
        }
        if op.content.contains('\n') {
          obs.class("op:multiline_content");
        }
        if op.content.ends_with('\n') {
          obs.class("op:content_ends_nl");
        }
        if op.name.is_some() {
          obs.class("op:named");
        }
        if op.enforce != 1 {
          obs.class("op:enforce");
        }
        for i in s0..e0.min(t.len()) {
          if tb[i] == b'\n' {
            if i == 0 || tb[i - 1] == b'\n' {
              obs.class("op:deletes_nl_at_col0");
            } else {
              obs.class("op:deletes_nl_at_col>0");
            }
          }
        }
      }
      for (i, a) in ops.iter().enumerate() {
        for b in &ops[i + 1..] {
          if (a.start, a.end) == (b.start, b.end) {
            obs.class("ops:equal_keys");
          } else if a.start < b.end && b.start < a.end {
            obs.class("ops:overlap");
          } else if a.end == b.start || b.end == a.start {
            obs.class("ops:touching");
          }
        }
      }
    }
  });
}
