//! C01 — streamed chunks reassemble exactly to source().

use rspack_sources::MapOptions;
use serde_json::{json, Value};

use super::{PanicPolicy, PropDef, Tier};
use crate::{
  gen::{gen_case, GenCfg},
  obs::Obs,
  record::{record, Ev},
  rng::Rng,
  spec::Spec,
};

pub fn def() -> PropDef {
  PropDef {
    id: "C01",
    gen,
    check,
    panic_policy: PanicPolicy::Count,
    rule: "random source trees (all leaf kinds incl. multi-byte and invalid UTF-8 text, wild maps, custom sources over multi-piece ropes; Concat/Replace/Cached/Boxed to depth 3 quick / 5 thorough); a case is non-trivial when a stream delivered >= 2 chunks and the tree has a composite (Concat with >=2 children, Replace with >=1 op, or Cached replay) re-slicing child chunks; trees repeat an earlier sibling now and then and, in every second case, equal Cached nodes of the tree under test are one shared instance / clones sharing one cache; distinct = distinct spec fingerprint",
    cases: |t| match t {
      Tier::Quick => 100_000,
      Tier::Thorough => 2_000_000,
    },
  }
}

fn gen(rng: &mut Rng, tier: Tier) -> Value {
  crate::gen::HUGE_TEXTS.store(true, std::sync::atomic::Ordering::Relaxed);
  let depth = match tier {
    Tier::Quick => rng.range(1, 3),
    Tier::Thorough => rng.range(1, 5),
  };
  let mut cfg = GenCfg::hostile(depth);
  if tier == Tier::Thorough && rng.chance(1, 4) {
    cfg.max_text = 200;
  }
  let spec = gen_case(rng, &cfg);
  json!({ "spec": spec, "share_instances": rng.chance(1, 2) })
}

pub fn is_composite(spec: &Spec) -> bool {
  spec.contains(&|s| match s {
    Spec::Concat { children, .. } => children.len() >= 2,
    Spec::Replace { ops, .. } => !ops.is_empty(),
    Spec::Cached { .. } => true,
    _ => false,
  })
}

fn check(case: &Value, obs: &mut Obs) {
  let spec = super::spec_of(case);
  let src = super::build_under_test(case, &spec, obs);
  let expected = spec.model_text();
  let source = src.source().to_string();
  // the model is only used to make the case classes meaningful; C01 itself
  // compares the stream with source() of the same object
  obs.count("model_text_agrees", (expected == source) as u64);
  let mut max_chunks = 0;
  // two rounds: the second stream of a Cached node is the replay path
  for round in 0..3 {
    for columns in [true, false] {
      let rec = record(&src, &MapOptions::new(columns));
      let mut n = 0;
      for e in &rec.events {
        if let Ev::Chunk { text, utf8_ok, seg } = e {
          n += 1;
          if text.is_none() {
            obs.fail(
              "chunk_without_text",
              format!("columns={columns} round={round} chunk at {}:{} has no text", seg.gl, seg.gc),
            );
          }
          if !utf8_ok {
            obs.fail(
              "chunk_invalid_utf8",
              format!("columns={columns} round={round} chunk at {}:{}", seg.gl, seg.gc),
            );
          }
        }
      }
      max_chunks = max_chunks.max(n);
      obs.count("chunks", n);
      obs.count("streams", 1);
      let text = rec.text();
      if text != source {
        obs.fail(
          "reassembly",
          format!(
            "columns={columns} round={round}: chunks give {:?}, source() is {:?}",
            text, source
          ),
        );
      }
    }
  }
  spec.walk(&mut |s| obs.class(s.kind()));
  if !spec.is_all_utf8() {
    obs.class("invalid_utf8_leaf");
  }
  if !source.is_ascii() {
    obs.class("multibyte_text");
  }
  if max_chunks >= 2 && is_composite(&spec) {
    obs.nontrivial();
  }
}
