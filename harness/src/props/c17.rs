//! C17 — no input in the documented domain makes the library panic or hang.

use std::hash::{Hash, Hasher};

use rspack_sources::{verif::map_options, MapOptions, Source, SourceMap};
use serde_json::{json, Value};

use super::{PanicPolicy, PropDef, Tier};
use crate::{
  gen::{gen_case, gen_text, GenCfg},
  obs::Obs,
  record::record,
  rng::Rng,
  spec::{build_box, MapSpec, Spec},
};

pub fn def() -> PropDef {
  PropDef {
    id: "C17",
    gen,
    check,
    panic_policy: PanicPolicy::Violation,
    rule: "three input families, run in a debug (overflow-checked) and a release build: (1) mappings strings over base64, ',', ';' and junk bytes with continuation runs up to 64 digits and huge deltas, through decode_mappings / decoded_mappings (item count must be <= len+1); (2) arbitrary byte strings and mutations of valid source-map documents (truncation, byte flips, deep nesting, huge numbers, invalid UTF-8) through from_json / from_slice / from_reader; (3) hostile source trees (multi-byte and invalid UTF-8 text, wild maps incl. raw mappings strings with negative running values, indices outside the tables, SourceMapSource with inner map with and without original text, replacement positions beyond the end and near u32::MAX) through every Source method, all four streaming modes, hashing, equality, cloning and Debug; any panic is a violation keyed on its source location; non-trivial = a decoder string with a >= 7 digit continuation run, a parser input derived from a valid document, or a tree with a wild map or a replacement beyond the end; distinct = case fingerprint",
    cases: |t| match t {
      Tier::Quick => 150_000,
      Tier::Thorough => 2_000_000,
    },
  }
}

const B64: &[u8] = b"ABCDEFGHIJKLMNOPQRSTUVWXYZabcdefghijklmnopqrstuvwxyz0123456789+/";

fn gen_mappings_string(rng: &mut Rng) -> String {
  let n = rng.range(0, 40);
  let mut s = String::new();
  for _ in 0..n {
    match rng.below(20) {
      0..=9 => s.push(B64[rng.below(64)] as char),
      10..=11 => s.push(','),
      12..=13 => s.push(';'),
      14 => {
        // long continuation run (digits with bit 5 set: 'g'..'/' )
        for _ in 0..rng.range(1, 64) {
          s.push(B64[32 + rng.below(32)] as char);
        }
        if rng.chance(2, 3) {
          s.push(B64[rng.below(32)] as char);
        }
      }
      15 => s.push_str(*rng.pick(&["////////P", "gggggggggggggggggggggggggggggggA", "+/+/+/+/+/+/+/", "D", "AADA", "AAAD", "ADAA"])),
      16 => s.push(*rng.pick(&[' ', '\n', '=', '-', '_', '"', '\\', '\u{0}', 'é', '😀', '\u{7f}'])),
      17 => s.push_str(";;;;"),
      _ => s.push_str(",,"),
    }
  }
  s
}

fn valid_doc(rng: &mut Rng) -> String {
  let m = MapSpec {
    segs: vec![],
    raw_mappings: Some(gen_mappings_string(rng)),
    sources: vec!["a.js".into(), gen_text(rng, 6, false)],
    contents: vec![gen_text(rng, 12, false)],
    names: vec!["n".into()],
    source_root: rng.chance(1, 2).then(|| "r".into()),
    file: rng.chance(1, 2).then(|| "f.js".into()),
    debug_id: None,
  };
  m.build().to_json().unwrap_or_else(|_| "{\"mappings\":\"\"}".into())
}

fn gen_bytes(rng: &mut Rng) -> Vec<u8> {
  match rng.below(10) {
    0 => (0..rng.below(40)).map(|_| rng.below(256) as u8).collect(),
    1 => {
      // JSON-ish soup
      let toks: &[&str] = &["{", "}", "[", "]", ":", ",", "\"", "mappings", "sources", "null", "true", "1e999", "-0", "\\u", "\\ud800", "\\", " ", "\n", "3", "names", "version", "sourcesContent", "\"\"", "1.5", "99999999999999999999"];
      let mut s = String::new();
      for _ in 0..rng.below(30) {
        s.push_str(*rng.pick(toks));
      }
      s.into_bytes()
    }
    2 => {
      let d = rng.range(1, 3000);
      let mut s = "[".repeat(d);
      s.push_str(&"]".repeat(rng.below(d + 1)));
      s.into_bytes()
    }
    3 => {
      let d = rng.range(1, 2000);
      let mut s = String::new();
      for _ in 0..d {
        s.push_str("{\"mappings\":");
      }
      s.push_str("\"\"");
      s.push_str(&"}".repeat(rng.below(d + 1)));
      s.into_bytes()
    }
    _ => {
      // mutation of a valid document
      let mut b = valid_doc(rng).into_bytes();
      for _ in 0..rng.range(1, 4) {
        if b.is_empty() {
          break;
        }
        match rng.below(6) {
          0 => b.truncate(rng.below(b.len() + 1)),
          1 => {
            let i = rng.below(b.len());
            b[i] ^= 1 << rng.below(8);
          }
          2 => {
            let i = rng.below(b.len());
            b.remove(i);
          }
          3 => {
            let i = rng.below(b.len() + 1);
            b.insert(i, *rng.pick(&[b'"', b'\\', b'{', b'[', 0xff, 0xc3, 0, b',', b'}', b']', b':']));
          }
          4 => {
            let i = rng.below(b.len());
            let j = rng.below(b.len());
            b.swap(i, j);
          }
          _ => {
            let extra: &[u8] = *rng.pick(&[&b"\"mappings\":5,"[..], &b"\"sources\":{},"[..], &b"\"names\":[1],"[..], &b"\"sourcesContent\":null,"[..], &b"\"version\":\"x\","[..], &b"\"mappings\":null,"[..], &b"\"file\":[],"[..]]);
            if b.len() > 1 {
              for (k, x) in extra.iter().enumerate() {
                b.insert(1 + k, *x);
              }
            }
          }
        }
      }
      b
    }
  }
}

/// Make some leaf maps of a hostile tree even wilder: raw mappings strings
/// (negative running values, original line 0), missing inner source text.
fn wilder(rng: &mut Rng, spec: &mut Spec) {
  match spec {
    Spec::SourceMap { map, inner, original, .. } => {
      if rng.chance(1, 6) {
        map.raw_mappings = Some(gen_mappings_string(rng));
      }
      if let Some(im) = inner {
        if rng.chance(1, 6) {
          im.raw_mappings = Some(gen_mappings_string(rng));
        }
        if rng.chance(1, 8) {
          // neither original_source nor sourcesContent for the inner source
          *original = None;
          map.contents.clear();
        }
      }
    }
    Spec::Custom { map: Some(m), .. } => {
      if rng.chance(1, 6) {
        m.raw_mappings = Some(gen_mappings_string(rng));
      }
    }
    Spec::Concat { children, .. } => children.iter_mut().for_each(|c| wilder(rng, c)),
    Spec::Replace { inner, .. } | Spec::Cached { inner } | Spec::Boxed { inner } => wilder(rng, inner),
    _ => {}
  }
}

fn gen(rng: &mut Rng, tier: Tier) -> Value {
  crate::gen::HUGE_TEXTS.store(true, std::sync::atomic::Ordering::Relaxed);
  match rng.below(10) {
    0..=2 => json!({ "decoder": gen_mappings_string(rng) }),
    3..=5 => json!({ "parser": gen_bytes(rng) }),
    _ => {
      let depth = match tier {
        Tier::Quick => rng.range(1, 3),
        Tier::Thorough => rng.range(1, 5),
      };
      let mut cfg = GenCfg::hostile(depth);
      if rng.chance(1, 4) {
        // the ASCII / consistent family of C02 is part of the domain as well
        cfg = GenCfg::ascii_consistent(depth);
      }
      let mut spec = gen_case(rng, &cfg);
      wilder(rng, &mut spec);
      json!({ "spec": spec })
    }
  }
}

fn exercise_tree(spec: &Spec, obs: &mut Obs) {
  let src = build_box(spec);
  let _ = src.source().len();
  let _ = src.buffer().len();
  let _ = src.size();
  let _ = src.rope().to_string();
  let _ = src.to_writer(&mut Vec::new());
  obs.count("source_methods", 5);
  for columns in [true, false] {
    let _ = src.map(&MapOptions::new(columns));
    for final_source in [false, true] {
      let _ = record(&src, &map_options(columns, final_source));
      obs.count("streams", 1);
    }
    // again: warm caches, replay paths
    let _ = src.map(&MapOptions::new(columns));
    let _ = record(&src, &MapOptions::new(columns));
  }
  let mut h = std::collections::hash_map::DefaultHasher::new();
  src.hash(&mut h);
  let _ = h.finish();
  let c: Box<dyn Source> = dyn_clone::clone_box(&*src);
  let _ = c.source().len() == src.source().len();
  let _ = format!("{:?}", src).len();
  let other = build_box(spec);
  let _ = &other == &src;
}

fn check(case: &Value, obs: &mut Obs) {
  if let Some(s) = case.get("decoder").and_then(|v| v.as_str()) {
    obs.class("decoder");
    let map = SourceMap::new(s.to_string(), Vec::<String>::new(), Vec::<String>::new(), Vec::<String>::new());
    let mut n = 0usize;
    for _ in map.decoded_mappings() {
      n += 1;
      if n > s.len() + 1 {
        obs.fail("decoder_does_not_terminate", format!("more than len+1 = {} items for {s:?}", s.len() + 1));
        break;
      }
    }
    let n2 = rspack_sources::decode_mappings(&map).take(s.len() + 2).count();
    obs.count("decoder_items", n as u64);
    if n2 != n && n <= s.len() + 1 {
      obs.fail("decoder_entry_points_disagree", format!("{n} vs {n2} items for {s:?}"));
    }
    let mut run = 0;
    let mut longest = 0;
    for b in s.bytes() {
      if crate::model::vlq::b64_value(b).is_some_and(|d| d & 32 != 0) {
        run += 1;
        longest = longest.max(run);
      } else {
        run = 0;
      }
    }
    if longest >= 7 {
      obs.nontrivial();
    }
  } else if let Some(b) = case.get("parser") {
    obs.class("parser");
    let bytes: Vec<u8> = serde_json::from_value(b.clone()).unwrap();
    let a = SourceMap::from_slice(&bytes).is_ok();
    let b2 = SourceMap::from_reader(&bytes[..]).is_ok();
    obs.count("parser_inputs", 1);
    if a {
      obs.count("parser_inputs_accepted", 1);
    }
    if let Ok(s) = std::str::from_utf8(&bytes) {
      let c = SourceMap::from_json(s).is_ok();
      if c != a {
        obs.fail("parsers_disagree", format!("from_json {c} vs from_slice {a} on {s:?}"));
      }
    }
    if a != b2 {
      obs.fail("parsers_disagree", format!("from_slice {a} vs from_reader {b2} on {:?}", String::from_utf8_lossy(&bytes)));
    }
    if bytes.len() > 10 && bytes.starts_with(b"{") {
      obs.nontrivial();
    }
  } else {
    obs.class("tree");
    let spec = super::spec_of(case);
    exercise_tree(&spec, obs);
    spec.walk(&mut |s| obs.class(s.kind()));
    let wild = spec.contains(&|s| match s {
      Spec::SourceMap { map, inner, .. } => map.raw_mappings.is_some() || inner.as_ref().is_some_and(|m| m.raw_mappings.is_some()) || !map_inside(map),
      Spec::Replace { inner, ops } => {
        let l = inner.model_text().len() as u32;
        ops.iter().any(|o| o.end > l)
      }
      _ => false,
    });
    if wild {
      obs.nontrivial();
    }
  }
}

fn map_inside(m: &MapSpec) -> bool {
  m.segs.iter().all(|s| s.gc < 40 && s.orig.as_ref().map_or(true, |o| (o.src as usize) < m.sources.len() && o.name.map_or(true, |n| (n as usize) < m.names.len())))
}
