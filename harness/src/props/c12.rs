//! C12 — mappings codec round-trips and matches the source-map v3 format.

use rspack_sources::{
  decode_mappings, encode_mappings, verif::encode_mappings_with, Mapping,
  OriginalLocation, SourceMap,
};
use serde::{Deserialize, Serialize};
use serde_json::{json, Value};

use super::{PanicPolicy, PropDef, Tier};
use crate::{
  model::vlq,
  obs::Obs,
  record::seg_of,
  rng::Rng,
  spec::{Orig, Seg},
};

pub fn def() -> PropDef {
  PropDef {
    id: "C12",
    gen,
    check,
    panic_policy: PanicPolicy::Violation,
    rule: "exhaustive sweep first: every single-field delta d with |d| < 2^12 (quick) / 2^20 (thorough) plus all values 2^k-1, 2^k, 2^k+1 up to 2^30, in each of the five fields and both signs (negative generated-column deltas through reference-encoded strings), encoded by the crate and decoded by crate + reference, and reference-encoded then decoded by the crate; then random sorted sequences (1-/4-/5-field segments, empty lines, gaps, values to 2^30, digit-boundary values), reference-spelled strings with redundant continuation digits / empty segments / backward columns / ';' runs, and the lines-only encoder; non-trivial = case exercised >= 2 mapped segments with a value >= 32 (multi-digit VLQ); distinct = case fingerprint",
    cases: |t| match t {
      Tier::Quick => 200_000,
      Tier::Thorough => 3_000_000,
    },
  }
}

#[derive(Clone, Debug, Serialize, Deserialize)]
enum Case {
  /// deltas lo..hi (and boundary values when `boundaries`) for all fields and signs
  Sweep { lo: u32, hi: u32, boundaries: bool },
  /// sorted sequence through the crate encoder
  Sorted { segs: Vec<Seg> },
  /// reference spelling: lines of segments (columns may go backwards),
  /// `pads` redundant digits per field, `empties` positions of empty segments
  Spelled { lines: Vec<Vec<Seg>>, pad_seed: u64, extra_semis: Vec<usize> },
  /// lines-only encoder
  LinesOnly { segs: Vec<Seg> },
}

const BLOCK: u32 = 4096;

pub fn enum_case(index: u64, tier: Tier) -> Option<Value> {
  let blocks: u64 = if tier == Tier::Quick { 1 } else { (1 << 20) / BLOCK as u64 };
  if index < blocks {
    let lo = index as u32 * BLOCK;
    return Some(json!({ "codec": Case::Sweep { lo, hi: lo + BLOCK, boundaries: index == 0 }, "exhaustive_index": index }));
  }
  None
}

fn pick_value(rng: &mut Rng) -> u32 {
  match rng.below(10) {
    0..=3 => rng.below(40) as u32,
    4..=5 => {
      // digit boundaries 2^(5k-1) +- 1 (sign bit takes one data bit)
      let k = rng.range(1, 6) as u32;
      let b = 1u32 << (5 * k - 1);
      (b as i64 + rng.range(0, 2) as i64 - 1) as u32
    }
    6..=7 => rng.below(5000) as u32,
    8 => rng.below(1 << 20) as u32,
    _ => rng.below(1 << 30) as u32,
  }
}

fn gen_orig(rng: &mut Rng) -> Option<Orig> {
  if rng.chance(1, 5) {
    return None;
  }
  Some(Orig {
    src: if rng.chance(2, 3) { rng.below(3) as u32 } else { pick_value(rng) },
    line: 1 + if rng.chance(2, 3) { rng.below(6) as u32 } else { pick_value(rng) },
    col: if rng.chance(1, 2) { rng.below(8) as u32 } else { pick_value(rng) },
    name: rng.chance(1, 3).then(|| if rng.chance(2, 3) { rng.below(4) as u32 } else { pick_value(rng) }),
  })
}

fn gen_sorted(rng: &mut Rng, max: usize) -> Vec<Seg> {
  let n = rng.range(0, max);
  let mut segs = Vec::new();
  let (mut gl, mut gc) = (1u32, 0u32);
  let mut first = true;
  let mut prev_orig: Option<Orig> = None;
  for _ in 0..n {
    match rng.below(10) {
      0..=1 => {
        gl += if rng.chance(1, 3) { pick_value(rng).clamp(1, 3000) } else { rng.range(1, 3) as u32 };
        gc = if rng.chance(1, 2) { 0 } else { pick_value(rng) };
      }
      _ => {
        if !first {
          gc += 1 + if rng.chance(1, 3) { pick_value(rng) } else { rng.below(6) as u32 };
        } else if rng.chance(1, 2) {
          gc = pick_value(rng);
        }
      }
    }
    first = false;
    if gc > (1 << 30) {
      gl += 1;
      gc = 0;
    }
    // sometimes repeat the previous original location (the encoder may drop it)
    let orig = if rng.chance(1, 6) && prev_orig.is_some() { prev_orig.clone() } else { gen_orig(rng) };
    prev_orig = orig.clone().or(prev_orig);
    segs.push(Seg { gl, gc, orig });
  }
  segs
}

fn gen(rng: &mut Rng, tier: Tier) -> Value {
  let max = if tier == Tier::Quick { 12 } else { 40 };
  let case = match rng.below(10) {
    0..=4 => Case::Sorted { segs: gen_sorted(rng, max) },
    5..=7 => {
      let nlines = rng.range(1, 5);
      let mut lines = Vec::new();
      for li in 0..nlines {
        let mut l = Vec::new();
        for _ in 0..rng.below(5) {
          l.push(Seg { gl: li as u32 + 1, gc: pick_value(rng), orig: gen_orig(rng) });
        }
        lines.push(l);
      }
      Case::Spelled { lines, pad_seed: rng.next_u64() >> 12, extra_semis: (0..rng.below(3)).map(|_| rng.below(nlines + 1)).collect() }
    }
    _ => Case::LinesOnly { segs: gen_sorted(rng, max) },
  };
  json!({ "codec": case })
}

fn mapping_of(s: &Seg) -> Mapping {
  Mapping {
    generated_line: s.gl,
    generated_column: s.gc,
    original: s.orig.as_ref().map(|o| OriginalLocation {
      source_index: o.src,
      original_line: o.line,
      original_column: o.col,
      name_index: o.name,
    }),
  }
}

fn crate_decode(s: &str) -> Vec<Seg> {
  let map = SourceMap::new(s.to_string(), Vec::<String>::new(), Vec::<String>::new(), Vec::<String>::new());
  let v: Vec<Seg> = decode_mappings(&map).map(|m| seg_of(&m)).collect();
  let v2: Vec<Seg> = map.decoded_mappings().map(|m| seg_of(&m)).collect();
  assert_eq!(v, v2, "decode_mappings and decoded_mappings disagree");
  v
}

/// greatest segment at or before (line, col) on that line
fn lookup(segs: &[Seg], line: u32, col: u32) -> Option<Orig> {
  let mut best: Option<&Seg> = None;
  for s in segs {
    if s.gl == line && s.gc <= col && best.map_or(true, |b| s.gc >= b.gc) {
      best = Some(s);
    }
  }
  best.and_then(|s| s.orig.clone())
}

/// An iterator with a freely chosen (but legal) size hint.
struct Hinted<I> {
  it: I,
  hint: (usize, Option<usize>),
}

impl<I: Iterator> Iterator for Hinted<I> {
  type Item = I::Item;
  fn next(&mut self) -> Option<I::Item> {
    self.it.next()
  }
  fn size_hint(&self) -> (usize, Option<usize>) {
    self.hint
  }
}

/// `encode_mappings` takes any iterator: the result must not depend on the
/// shape of the iterator (adaptors whose size hint has lower bound 0, no upper
/// bound, a loose upper bound, a decoder fed straight back in).
fn check_iterator_shapes(segs: &[Seg], expected: &str, obs: &mut Obs) {
  let v: Vec<Mapping> = segs.iter().map(mapping_of).collect();
  let n = v.len();
  let shapes: Vec<(&str, String)> = vec![
    ("Vec::into_iter", encode_mappings(v.clone().into_iter())),
    ("filter(|_| true)", encode_mappings(v.clone().into_iter().filter(|_| true))),
    ("take_while(|_| true)", encode_mappings(v.clone().into_iter().take_while(|_| true))),
    ("filter_map(Some)", encode_mappings(v.clone().into_iter().filter_map(Some))),
    ("skip_while(|_| false)", encode_mappings(v.clone().into_iter().skip_while(|_| false))),
    ("chain(empty)", encode_mappings(v.clone().into_iter().chain(std::iter::empty()))),
    ("hint (0, None)", encode_mappings(Hinted { it: v.clone().into_iter(), hint: (0, None) })),
    ("hint (0, Some(n))", encode_mappings(Hinted { it: v.clone().into_iter(), hint: (0, Some(n)) })),
    ("hint (0, Some(MAX))", encode_mappings(Hinted { it: v.clone().into_iter(), hint: (0, Some(usize::MAX)) })),
    ("hint (n, None)", encode_mappings(Hinted { it: v.clone().into_iter(), hint: (n, None) })),
    ("decode_mappings(..) fed back", {
      let sm = rspack_sources::SourceMap::new(expected.to_string(), Vec::<String>::new(), Vec::<String>::new(), Vec::<String>::new());
      let out = encode_mappings(decode_mappings(&sm));
      out
    }),
  ];
  for (what, got) in shapes {
    obs.count("iterator_shapes_encoded", 1);
    // the decoder drops nothing the encoder wrote, so feeding it back gives
    // the same string; all other shapes carry exactly the same items
    if got != expected {
      obs.fail("encode_depends_on_iterator_shape", format!("{what}: {got:?}, slice iterator gives {expected:?} (input {segs:?})"));
      return;
    }
  }
}

fn check_sorted(segs: &[Seg], obs: &mut Obs) {
  let s = encode_mappings(segs.iter().map(mapping_of));
  obs.count("sequences_encoded", 1);
  check_iterator_shapes(segs, &s, obs);
  if !vlq::is_wellformed_charset(&s) {
    obs.fail("encoded_charset", format!("{s:?}"));
  }
  let by_crate = crate_decode(&s);
  let by_ref = match vlq::decode(&s) {
    Ok(v) => v,
    Err(e) => {
      obs.fail("encoded_not_v3", format!("reference decoder rejects {s:?}: {e:?} (input {segs:?})"));
      return;
    }
  };
  if by_crate != by_ref {
    obs.fail("decoders_disagree", format!("on {s:?}: crate {by_crate:?} vs reference {by_ref:?}"));
    return;
  }
  // decoded is a subsequence of the input; dropped segments are of the two allowed kinds
  let mut j = 0;
  let mut active: Option<&Seg> = None; // last kept segment
  for inp in segs {
    if j < by_ref.len() && by_ref[j] == *inp {
      active = Some(inp);
      j += 1;
      continue;
    }
    obs.count("dropped_segments", 1);
    let act = active.filter(|a| a.gl == inp.gl).and_then(|a| a.orig.as_ref());
    let allowed = match (&inp.orig, act) {
      // unmapped with no active mapping
      (None, None) => true,
      // repeats the active original location (no names involved)
      (Some(o), Some(a)) => o.src == a.src && o.line == a.line && o.col == a.col && o.name.is_none() && a.name.is_none(),
      _ => false,
    };
    if !allowed {
      obs.fail("segment_dropped_or_changed", format!("input segment {inp:?} is missing from decode(encode(..)) = {by_ref:?}; encoded {s:?}; input {segs:?}"));
      return;
    }
  }
  if j != by_ref.len() {
    obs.fail("segment_invented", format!("decode(encode(..)) has segments not in the input: {by_ref:?} vs input {segs:?}; encoded {s:?}"));
    return;
  }
  // same attribution at every probe position
  for inp in segs {
    for col in [inp.gc, inp.gc.saturating_add(1), inp.gc.saturating_sub(1)] {
      obs.count("probes", 1);
      let a = lookup(segs, inp.gl, col);
      let b = lookup(&by_ref, inp.gl, col);
      // a repeated location with a name on the active segment keeps the name
      // of the active one in both views, so plain equality is right
      if a != b {
        obs.fail("attribution_changed", format!("position {}:{col}: input says {a:?}, decode(encode(..)) says {b:?}; encoded {s:?}; input {segs:?}", inp.gl));
        return;
      }
    }
  }
  // re-encoding what was decoded gives the same string
  let again = encode_mappings(by_crate.iter().map(mapping_of));
  if again != s {
    obs.fail("reencode_differs", format!("encode(decode({s:?})) = {again:?}"));
  }
}

fn check_spelled(lines: &[Vec<Seg>], pad_seed: u64, extra_semis: &[usize], obs: &mut Obs) {
  // build the string with the reference encoder, line by line, so that
  // columns may go backwards inside a line
  let mut rng = Rng::new(pad_seed);
  let mut out = String::new();
  let mut expected: Vec<Seg> = Vec::new();
  let (mut src, mut ol, mut oc, mut nm) = (0i64, 0i64, 0i64, 0i64);
  let mut line_no = 1u32;
  for (li, l) in lines.iter().enumerate() {
    let extra = extra_semis.iter().filter(|e| **e == li).count();
    for _ in 0..extra {
      out.push(';');
      line_no += 1;
    }
    let mut col = 0i64;
    let mut first = true;
    for s in l {
      if !first {
        out.push(',');
      }
      first = false;
      if rng.chance(1, 6) {
        out.push(','); // empty segment
      }
      let pad = |rng: &mut Rng| if rng.chance(1, 4) { rng.range(1, 3) } else { 0 };
      vlq::push_vlq(&mut out, s.gc as i64 - col, pad(&mut rng));
      col = s.gc as i64;
      if let Some(o) = &s.orig {
        vlq::push_vlq(&mut out, o.src as i64 - src, pad(&mut rng));
        src = o.src as i64;
        vlq::push_vlq(&mut out, o.line as i64 - 1 - ol, pad(&mut rng));
        ol = o.line as i64 - 1;
        vlq::push_vlq(&mut out, o.col as i64 - oc, pad(&mut rng));
        oc = o.col as i64;
        if let Some(n) = o.name {
          vlq::push_vlq(&mut out, n as i64 - nm, pad(&mut rng));
          nm = n as i64;
        }
      }
      expected.push(Seg { gl: line_no, gc: s.gc, orig: s.orig.clone() });
    }
    if rng.chance(1, 8) {
      out.push(','); // trailing empty segment
    }
    if li + 1 < lines.len() {
      out.push(';');
      line_no += 1;
    }
  }
  obs.count("spelled_strings", 1);
  match vlq::decode(&out) {
    Ok(r) if r == expected => {}
    other => {
      obs.inconclusive.push(format!("reference decoder does not reproduce its own spelling {out:?}: {other:?} vs {expected:?}"));
      return;
    }
  }
  let got = crate_decode(&out);
  if got != expected {
    obs.fail("decoder_vs_format", format!("on {out:?}: crate decoder {got:?}, the format defines {expected:?}"));
  }
}

fn check_lines_only(segs: &[Seg], obs: &mut Obs) {
  let s = encode_mappings_with(false, segs.iter().map(mapping_of));
  obs.count("lines_only_encoded", 1);
  let dec = match vlq::decode(&s) {
    Ok(v) => v,
    Err(e) => {
      obs.fail("lines_only_not_v3", format!("reference decoder rejects {s:?}: {e:?}"));
      return;
    }
  };
  let by_crate = crate_decode(&s);
  if by_crate != dec {
    obs.fail("decoders_disagree", format!("on {s:?}: crate {by_crate:?} vs reference {dec:?}"));
  }
  let mut expected: Vec<(u32, u32, u32)> = Vec::new();
  let mut last_line = 0;
  for sg in segs {
    if let Some(o) = &sg.orig {
      if sg.gl != last_line {
        expected.push((sg.gl, o.src, o.line));
        last_line = sg.gl;
      }
    }
  }
  let got: Vec<(u32, u32, u32)> = dec.iter().map(|d| (d.gl, d.orig.as_ref().map_or(u32::MAX, |o| o.src), d.orig.as_ref().map_or(u32::MAX, |o| o.line))).collect();
  if got != expected {
    obs.fail("lines_only_segments", format!("lines-only encoder gives (line, source, original line) {got:?}, expected the first mapped segment of each line {expected:?}; encoded {s:?}; input {segs:?}"));
    return;
  }
  for d in &dec {
    if d.gc != 0 || d.orig.as_ref().is_some_and(|o| o.name.is_some()) {
      obs.fail("lines_only_column_or_name", format!("segment {d:?} in {s:?} is not at column 0 without name"));
    }
  }
}

fn sweep_values(lo: u32, hi: u32, boundaries: bool) -> Vec<u32> {
  let mut v: Vec<u32> = (lo..hi).collect();
  if boundaries {
    for k in 1..=30u32 {
      let b = 1u32 << k;
      v.extend([b - 1, b, b + 1]);
    }
    v.push((1 << 30) + 7);
  }
  v
}

fn check_sweep(lo: u32, hi: u32, boundaries: bool, obs: &mut Obs) {
  let base = (1u32 << 30) + 8; // room for negative deltas
  for d in sweep_values(lo, hi, boundaries) {
    if d > (1 << 30) + 7 {
      continue;
    }
    for field in 0..5 {
      for neg in [false, true] {
        obs.count("sweep_pairs", 1);
        // two mapped segments on one line; field `field` moves by +-d
        let b = if neg { base } else { 0 };
        let first = Seg { gl: 1, gc: if field == 0 && neg { base } else { 0 }, orig: Some(Orig { src: b, line: b + 1, col: b, name: Some(b) }) };
        let mut second = first.clone();
        let apply = |x: u32| if neg { x - d } else { x + d };
        {
          let o = second.orig.as_mut().unwrap();
          match field {
            0 => {}
            1 => o.src = apply(o.src),
            2 => o.line = apply(o.line),
            3 => o.col = apply(o.col),
            _ => o.name = Some(apply(o.name.unwrap())),
          }
        }
        if field == 0 {
          second.gc = apply(first.gc);
        } else {
          second.gc = 1;
        }
        let segs = vec![first.clone(), second.clone()];
        // crate decoder on the reference spelling (all signs, also backward columns)
        let mut spelled = String::new();
        {
          // reference encoder keeps order as given even if columns go backwards
          let mut col = 0i64;
          let (mut s, mut l, mut c, mut n) = (0i64, 0i64, 0i64, 0i64);
          for (i, sg) in segs.iter().enumerate() {
            if i > 0 {
              spelled.push(',');
            }
            let o = sg.orig.as_ref().unwrap();
            vlq::push_vlq(&mut spelled, sg.gc as i64 - col, 0);
            col = sg.gc as i64;
            vlq::push_vlq(&mut spelled, o.src as i64 - s, 0);
            s = o.src as i64;
            vlq::push_vlq(&mut spelled, o.line as i64 - 1 - l, 0);
            l = o.line as i64 - 1;
            vlq::push_vlq(&mut spelled, o.col as i64 - c, 0);
            c = o.col as i64;
            vlq::push_vlq(&mut spelled, o.name.unwrap() as i64 - n, 0);
            n = o.name.unwrap() as i64;
          }
        }
        let got = crate_decode(&spelled);
        if got != segs {
          obs.fail("sweep_decoder", format!("field {field} delta {}{d}: crate decoder on {spelled:?} gives {got:?}, expected {segs:?}", if neg { "-" } else { "+" }));
          return;
        }
        // crate encoder (needs sorted input: skip the backward column case)
        if field == 0 && neg {
          continue;
        }
        if field == 0 && d == 0 {
          continue;
        }
        let enc = encode_mappings(segs.iter().map(mapping_of));
        match vlq::decode(&enc) {
          Ok(r) => {
            let same_loc = field == 0 || d == 0;
            let expect: Vec<Seg> = if same_loc && d == 0 && field != 0 { segs.clone() } else { segs.clone() };
            if r != expect {
              obs.fail("sweep_encoder", format!("field {field} delta {}{d}: crate encoder gives {enc:?} which decodes to {r:?}, expected {expect:?}", if neg { "-" } else { "+" }));
              return;
            }
            if enc != spelled {
              obs.fail("sweep_encoder_spelling", format!("field {field} delta {}{d}: crate encoder {enc:?} vs canonical spelling {spelled:?}", if neg { "-" } else { "+" }));
              return;
            }
          }
          Err(e) => {
            obs.fail("sweep_encoder", format!("field {field} delta {d}: {enc:?} rejected by the reference decoder: {e:?}"));
            return;
          }
        }
      }
    }
  }
}

fn check(case: &Value, obs: &mut Obs) {
  let c: Case = serde_json::from_value(case["codec"].clone()).unwrap();
  match &c {
    Case::Sweep { lo, hi, boundaries } => {
      obs.class("sweep");
      check_sweep(*lo, *hi, *boundaries, obs);
      obs.nontrivial();
    }
    Case::Sorted { segs } => {
      obs.class("sorted_sequence");
      check_sorted(segs, obs);
      if interesting(segs) {
        obs.nontrivial();
      }
    }
    Case::Spelled { lines, pad_seed, extra_semis } => {
      obs.class("reference_spelling");
      check_spelled(lines, *pad_seed, extra_semis, obs);
      let flat: Vec<Seg> = lines.iter().flatten().cloned().collect();
      if interesting(&flat) {
        obs.nontrivial();
      }
    }
    Case::LinesOnly { segs } => {
      obs.class("lines_only");
      check_lines_only(segs, obs);
      if interesting(segs) {
        obs.nontrivial();
      }
    }
  }
}

fn interesting(segs: &[Seg]) -> bool {
  let mapped = segs.iter().filter(|s| s.orig.is_some()).count();
  let big = segs.iter().any(|s| s.gc >= 32 || s.orig.as_ref().is_some_and(|o| o.col >= 32 || o.line >= 32 || o.src >= 32));
  mapped >= 2 && big
}
