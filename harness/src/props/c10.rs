//! C10 — CachedSource is transparent for every call history.

use std::hash::{Hash, Hasher};

use rspack_sources::{
  verif::map_options, BoxSource, CachedSource, ConcatSource, MapOptions,
  RawSource, Source, SourceExt, SourceMap, VerifPeek,
};
use serde::{Deserialize, Serialize};
use serde_json::{json, Value};

use super::{PanicPolicy, PropDef, Tier};
use crate::{
  model::{
    attr::{attr_lines_of_map, attr_lines_of_stream, attr_of_map, attr_of_stream, first_diff},
    vlq,
  },
  obs::Obs,
  record::record,
  rng::Rng,
  spec::{build_box, stable_hash},
};

#[derive(Clone, Copy, Debug, Serialize, Deserialize, PartialEq, Eq)]
enum Op {
  Source,
  Buffer,
  Size,
  Rope,
  ToWriter,
  Map(bool),
  Stream(bool),
  /// map() of an enclosing ConcatSource: streams the cache in final-source mode
  EnclosedMap(bool),
  Hash,
  /// make handle `h` a fresh clone of handle 0
  Clone,
}

#[derive(Clone, Debug, Serialize, Deserialize)]
struct Call {
  handle: usize,
  op: Op,
}

pub fn def() -> PropDef {
  PropDef {
    id: "C10",
    gen,
    check,
    panic_policy: PanicPolicy::Count,
    rule: "random ASCII wrapped trees and call histories (<=10 quick / <=25 thorough calls) over a CachedSource and up to two clones: source/buffer/size/rope/to_writer/map(c)/stream(c)/map of an enclosing ConcatSource (final-source streaming)/hash/clone; every answer is compared with an uncached instance of the same tree (text literal, GeneratedInfo, attribution per character / per line), repeated map() answers must be equal, columns=false answers must not carry column detail of a columns=true entry, and cache slots are peeked after every call (None* Some(x)* per key); non-trivial = the wrapped tree has a map and the history contains both a fill and a later read of the same key (cold -> warm); distinct = case fingerprint",
    cases: |t| match t {
      Tier::Quick => 100_000,
      Tier::Thorough => 1_500_000,
    },
  }
}

fn gen(rng: &mut Rng, tier: Tier) -> Value {
  // The oracle is a second, uncached instance of the same tree, so the tree's
  // own answers must not depend on its call history: trees with a CachedSource
  // beneath a ReplaceSource are excluded here (their history dependence is the
  // known finding recorded under C03).
  let depth = match tier {
    Tier::Quick => rng.range(1, 3),
    Tier::Thorough => rng.range(1, 5),
  };
  let mut cfg = crate::gen::GenCfg::ascii_consistent(depth);
  cfg.cached_under_replace = false;
  if rng.chance(1, 3) {
    cfg.max_text = 16;
  }
  let spec = crate::gen::gen_case(rng, &cfg);
  let n = rng.range(2, if tier == Tier::Quick { 10 } else { 25 });
  let mut calls = Vec::new();
  for _ in 0..n {
    let op = match rng.below(20) {
      0 => Op::Source,
      1 => Op::Buffer,
      2 => Op::Size,
      3 => Op::Rope,
      4 => Op::ToWriter,
      5..=8 => Op::Map(rng.chance(1, 2)),
      9..=13 => Op::Stream(rng.chance(1, 2)),
      14..=15 => Op::EnclosedMap(rng.chance(1, 2)),
      16..=17 => Op::Hash,
      _ => Op::Clone,
    };
    calls.push(Call {
      handle: rng.below(3),
      op,
    });
  }
  json!({ "spec": spec, "calls": calls })
}

fn lines_only_shape(m: &SourceMap) -> bool {
  match vlq::decode(m.mappings()) {
    Err(_) => false,
    Ok(segs) => {
      let mut last_line = 0;
      segs.iter().all(|s| {
        let ok = s.gc == 0
          && s.gl != last_line
          && s.orig.as_ref().map_or(true, |o| o.name.is_none());
        last_line = s.gl;
        ok
      })
    }
  }
}

fn check(case: &Value, obs: &mut Obs) {
  let spec = super::spec_of(case);
  let calls: Vec<Call> = serde_json::from_value(case["calls"].clone()).unwrap();
  let plain = build_box(&spec);
  let text = plain.source().to_string();
  let cached0: CachedSource<BoxSource> = CachedSource::new(build_box(&spec));
  let mut handles: Vec<Option<CachedSource<BoxSource>>> = vec![Some(cached0), None, None];
  let fresh_hash = stable_hash(&CachedSource::new(build_box(&spec)));
  let keys = [
    map_options(true, false),
    map_options(false, false),
    map_options(true, true),
    map_options(false, true),
  ];
  let mut slot: Vec<Option<(Option<SourceMap>, usize)>> = vec![None; 4];
  let mut last_map: [Option<Option<SourceMap>>; 2] = [None, None];
  let mut filled_then_read = false;
  let mut fills: [bool; 4] = [false; 4];
  let plain_has_map = plain.map(&MapOptions::default()).is_some();

  for (i, call) in calls.iter().enumerate() {
    if handles[call.handle].is_none() || call.op == Op::Clone {
      let c = handles[0].as_ref().unwrap().clone();
      handles[call.handle.max(1).min(2)] = Some(c);
      if call.op == Op::Clone {
        continue;
      }
    }
    let h = handles[call.handle].as_ref().or(handles[0].as_ref()).unwrap();
    let who = format!("call {i} {:?} on handle {}", call.op, call.handle);
    obs.count("calls", 1);
    match call.op {
      Op::Source => {
        if h.source() != plain.source() {
          obs.fail("source", format!("{who}: {:?} vs wrapped {:?}", h.source(), plain.source()));
        }
      }
      Op::Buffer => {
        if h.buffer() != plain.buffer() {
          obs.fail("buffer", format!("{who}: buffers differ"));
        }
      }
      Op::Size => {
        if h.size() != plain.size() {
          obs.fail("size", format!("{who}: {} vs wrapped {}", h.size(), plain.size()));
        }
      }
      Op::Rope => {
        if h.rope().to_string() != plain.source() {
          obs.fail("rope", format!("{who}: rope differs"));
        }
      }
      Op::ToWriter => {
        let mut a = Vec::new();
        let _ = h.to_writer(&mut a);
        if a != plain.buffer().to_vec() {
          obs.fail("to_writer", format!("{who}: bytes differ"));
        }
      }
      Op::Map(c) => {
        let o = MapOptions::new(c);
        let ki = if c { 0 } else { 1 };
        if fills[ki] {
          filled_then_read = true;
        }
        let got = h.map(&o);
        let exp = plain.map(&o);
        compare_maps(&who, &text, c, &got, &exp, obs);
        if let Some(prev) = &last_map[ki] {
          if *prev != got {
            obs.fail("map_answer_changed", format!("{who}: map() answer {:?} differs from the earlier answer {:?}", got.as_ref().map(|m| m.mappings().to_string()), prev.as_ref().map(|m| m.mappings().to_string())));
          }
        }
        last_map[ki] = Some(got);
        fills[ki] = true;
      }
      Op::Stream(c) => {
        let o = MapOptions::new(c);
        let ki = if c { 0 } else { 1 };
        if fills[ki] {
          filled_then_read = true;
        }
        let got = record(h, &o);
        let exp = record(&plain, &o);
        obs.count("streams_compared", 1);
        if got.text() != exp.text() {
          obs.fail("stream_text", format!("{who}: stream text {:?} vs wrapped {:?}", got.text(), exp.text()));
        } else if got.end != exp.end {
          obs.fail("stream_generated_info", format!("{who}: end {:?} vs wrapped {:?}", got.end, exp.end));
        } else if c {
          if let Some(d) = first_diff(&attr_of_stream(&got), &attr_of_stream(&exp), true) {
            obs.fail("stream_attribution", format!("{who}: cached vs wrapped stream {d}; text {text:?}"));
          }
        } else if attr_lines_of_stream(&got) != attr_lines_of_stream(&exp) {
          obs.fail("stream_line_attribution", format!("{who}: cached {:?} vs wrapped {:?}; text {text:?}", attr_lines_of_stream(&got), attr_lines_of_stream(&exp)));
        }
        fills[ki] = true;
      }
      Op::EnclosedMap(c) => {
        let o = MapOptions::new(c);
        let ki = if c { 2 } else { 3 };
        if fills[ki] {
          filled_then_read = true;
        }
        let enc = ConcatSource::new([RawSource::from("p").boxed(), h.clone().boxed(), RawSource::from("").boxed()]);
        let enc_plain = ConcatSource::new([RawSource::from("p").boxed(), plain.clone(), RawSource::from("").boxed()]);
        let t2 = format!("p{text}");
        compare_maps(&format!("{who} (enclosing ConcatSource)"), &t2, c, &enc.map(&o), &enc_plain.map(&o), obs);
        fills[ki] = true;
      }
      Op::Hash => {
        let hh = stable_hash(h);
        if hh != fresh_hash {
          obs.fail("hash", format!("{who}: hash {hh:x} differs from the hash of a fresh CachedSource of the same tree {fresh_hash:x}"));
        }
        let mut s = std::collections::hash_map::DefaultHasher::new();
        h.hash(&mut s);
        let _ = s.finish();
      }
      Op::Clone => {}
    }
    // peek the cache slots through every handle: write-once
    for (k, key) in keys.iter().enumerate() {
      for hh in handles.iter().flatten() {
        match hh.verif_peek(key) {
          VerifPeek::Locked => {}
          VerifPeek::Absent => {
            obs.count("peeks", 1);
            if slot[k].is_some() {
              obs.fail("cache_entry_removed", format!("after {who}: key {:?} was cached and is now absent", key));
            }
          }
          VerifPeek::Present(m, addr) => {
            obs.count("peeks", 1);
            if let Some((pm, paddr)) = &slot[k] {
              if *pm != m || *paddr != addr {
                obs.fail("cache_entry_replaced", format!("after {who}: key {:?} held {:?} and now holds {:?}", key, pm.as_ref().map(|m| m.mappings().to_string()), m.as_ref().map(|m| m.mappings().to_string())));
              }
            }
            slot[k] = Some((m, addr));
          }
        }
      }
    }
  }
  spec.walk(&mut |s| obs.class(s.kind()));
  if plain_has_map && filled_then_read {
    obs.nontrivial();
  }
}

fn compare_maps(who: &str, text: &str, columns: bool, got: &Option<SourceMap>, exp: &Option<SourceMap>, obs: &mut Obs) {
  obs.count("maps_compared", 1);
  if columns {
    match (attr_of_map(text, got.as_ref()), attr_of_map(text, exp.as_ref())) {
      (Ok(a), Ok(b)) => {
        if let Some(d) = first_diff(&a, &b, true) {
          obs.fail("map_attribution", format!("{who}: cached vs wrapped {d}; cached {:?} wrapped {:?}; text {text:?}", got.as_ref().map(|m| m.mappings().to_string()), exp.as_ref().map(|m| m.mappings().to_string())));
        }
      }
      (Err(e), _) | (_, Err(e)) => obs.fail("map_undecodable", e),
    }
  } else {
    match (attr_lines_of_map(text, got.as_ref()), attr_lines_of_map(text, exp.as_ref())) {
      (Ok(a), Ok(b)) => {
        if a != b {
          obs.fail("map_line_attribution", format!("{who}: cached {:?} vs wrapped {:?}; cached {:?} wrapped {:?}", a, b, got.as_ref().map(|m| m.mappings().to_string()), exp.as_ref().map(|m| m.mappings().to_string())));
        }
      }
      (Err(e), _) | (_, Err(e)) => obs.fail("map_undecodable", e),
    }
    // a columns=true entry must never be served for columns=false
    if let Some(g) = got {
      if Some(g) != exp.as_ref() && !lines_only_shape(g) {
        obs.fail("columns_true_entry_served_for_false", format!("{who}: answer {:?} is neither the wrapped source's answer {:?} nor a lines-only map", g.mappings(), exp.as_ref().map(|m| m.mappings().to_string())));
      }
    }
  }
}
