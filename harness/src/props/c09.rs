//! C09 — combined source maps compose outer and inner attribution.

use rspack_sources::{MapOptions, Source};
use serde_json::{json, Value};

use super::{PanicPolicy, PropDef, Tier};
use crate::{
  gen::{gen_combined, new_pool, GenCfg},
  model::attr::{lines_of, At, Resolved},
  obs::Obs,
  rng::Rng,
  spec::{build_box, MapSpec, Seg, Spec},
};

pub fn def() -> PropDef {
  PropDef {
    id: "C09",
    gen,
    check,
    panic_policy: PanicPolicy::Count,
    rule: "random ASCII generated texts with consistent outer maps (1-3 sources, one of them the inner source name, pointing at real positions of the original text), consistent inner maps over the original text, original_source supplied or taken from the outer sourcesContent, remove_original_source in {true,false}, columns in {true,false}; map() of the SourceMapSource is decoded independently and compared per character with a reference composition over the decoded outer and inner maps; non-trivial = >= 1 character composed through the inner map and >= 1 character that falls back or passes through; distinct = case fingerprint",
    cases: |t| match t {
      Tier::Quick => 150_000,
      Tier::Thorough => 2_000_000,
    },
  }
}

fn gen(rng: &mut Rng, tier: Tier) -> Value {
  let mut cfg = GenCfg::ascii_consistent(1);
  cfg.max_text = match (tier, rng.below(4)) {
    (_, 0) => 10,
    (Tier::Thorough, 1) => 120,
    _ => 40,
  };
  let mut pool = new_pool(rng, &cfg);
  json!({ "spec": gen_combined(rng, &cfg, &mut pool), "no_shrink": true })
}

fn resolved_of(m: &MapSpec) -> Resolved {
  Resolved::from_parts(
    &m.segs,
    // resolved names: sourceRoot applied
    m.sources.iter().map(|s| crate::model::attr::apply_source_root(m.source_root.as_deref(), s)).collect(),
    (0..m.sources.len()).map(|i| m.contents.get(i).cloned()).collect(),
    m.names.clone(),
  )
}

/// greatest segment at or before (line, col) on that line, as a Seg
fn seg_lookup<'a>(r: &'a Resolved, line: u32, col: u32) -> Option<&'a Seg> {
  let segs = r.lines.get((line as usize).checked_sub(1)?)?;
  let mut best: Option<&Seg> = None;
  for s in segs {
    if s.gc <= col && best.map_or(true, |b| s.gc >= b.gc) {
      best = Some(s);
    }
  }
  best
}

fn text_at(content: &str, line: u32, col: u32) -> String {
  lines_of(content)
    .get((line as usize).wrapping_sub(1))
    .map(|l| l.get(col as usize..).unwrap_or("").to_string())
    .unwrap_or_default()
}

fn nonempty(s: Option<String>) -> Option<String> {
  s.filter(|c| !c.is_empty())
}

#[derive(Debug)]
enum Expect {
  Un,
  Exact {
    file: String,
    content: Option<String>,
    line: u32,
    col: u32,
    name: Option<String>,
  },
  Inner {
    file: String,
    content: Option<String>,
    line: u32,
    col_lo: u32,
    col_hi: u32,
    inner_name: Option<String>,
    outer_name: Option<String>,
  },
}

fn expect_for(
  outer_seg: Option<&Seg>,
  outer: &Resolved,
  inner: &Resolved,
  inner_name_of_file: &str,
  inner_text_content: &Option<String>,
  remove: bool,
  columns: bool,
) -> Expect {
  let Some(os) = outer_seg else { return Expect::Un };
  let Some(o) = &os.orig else { return Expect::Un };
  let file = outer.sources.get(o.src as usize).cloned().unwrap_or_default();
  let outer_name = if columns {
    o.name.and_then(|n| outer.names.get(n as usize).cloned())
  } else {
    None
  };
  if file != inner_name_of_file {
    return Expect::Exact {
      file,
      content: nonempty(outer.contents.get(o.src as usize).cloned().flatten()),
      line: o.line,
      col: if columns { o.col } else { 0 },
      name: outer_name,
    };
  }
  // points into the inner source: look (line, col) up in the inner map
  let inner_seg = if columns {
    seg_lookup(inner, o.line, o.col).cloned()
  } else {
    // lines-only streaming of the inner source: one piece per line carrying
    // the line's first mapped segment
    inner
      .lines
      .get(o.line as usize - 1)
      .and_then(|l| l.iter().find(|s| s.orig.is_some()))
      .map(|s| Seg { gl: s.gl, gc: 0, orig: s.orig.clone() })
  };
  match inner_seg.as_ref().and_then(|s| s.orig.as_ref().map(|io| (s, io))) {
    Some((is, io)) => Expect::Inner {
      file: inner.sources.get(io.src as usize).cloned().unwrap_or_default(),
      content: nonempty(inner.contents.get(io.src as usize).cloned().flatten()),
      line: io.line,
      col_lo: io.col,
      col_hi: io.col + (o.col - is.gc.min(o.col)),
      inner_name: if columns { io.name.and_then(|n| inner.names.get(n as usize).cloned()) } else { None },
      outer_name,
    },
    None => {
      if remove {
        Expect::Un
      } else {
        Expect::Exact {
          file,
          content: nonempty(inner_text_content.clone()),
          line: o.line,
          col: if columns { o.col } else { 0 },
          name: outer_name,
        }
      }
    }
  }
}

fn check(case: &Value, obs: &mut Obs) {
  let spec = super::spec_of(case);
  let Spec::SourceMap { text, name, map: outer_m, original, inner: Some(inner_m), remove } = &spec else {
    obs.inconclusive.push("C09 case is not a combined SourceMapSource".into());
    return;
  };
  let src = build_box(&spec);
  let outer = resolved_of(outer_m);
  let inner = resolved_of(inner_m);
  let k = outer_m
    .sources
    .iter()
    .position(|s| crate::model::attr::apply_source_root(outer_m.source_root.as_deref(), s) == *name);
  if outer_m.source_root.as_deref().is_some_and(|r| !r.is_empty()) || inner_m.source_root.as_deref().is_some_and(|r| !r.is_empty()) {
    obs.class("source_root_on_outer_or_inner_map");
  }
  // the text of the inner source: supplied original, else outer sourcesContent
  let inner_text: Option<String> = original
    .clone()
    .or_else(|| k.and_then(|k| outer_m.contents.get(k).cloned()));
  let mut composed = 0u64;
  let mut other = 0u64;
  for columns in [true, false] {
    let map = src.map(&MapOptions::new(columns));
    let got = match map.as_ref().map(Resolved::from_map) {
      Some(Err(e)) => {
        obs.fail("map_undecodable", e);
        continue;
      }
      Some(Ok(r)) => Some(r),
      None => None,
    };
    let ctx = |s: String| {
      format!(
        "columns={columns}: {s}; text {text:?}; outer {:?} sources {:?}; inner {:?} sources {:?}; original {:?} remove {remove}; result {:?} sources {:?}",
        outer_m.mappings_string(), outer_m.sources, inner_m.mappings_string(), inner_m.sources, inner_text,
        map.as_ref().map(|m| m.mappings().to_string()), map.as_ref().map(|m| m.sources().to_vec())
      )
    };
    'lines: for (li, l) in lines_of(text).iter().enumerate() {
      let gl = li as u32 + 1;
      let cols: Vec<u32> = if columns { (0..l.len() as u32).collect() } else { vec![0] };
      for c in cols {
        let outer_seg: Option<Seg> = if columns {
          seg_lookup(&outer, gl, c).cloned()
        } else {
          outer.lines.get(li).and_then(|l| l.iter().find(|s| s.orig.is_some())).cloned()
        };
        let exp = expect_for(outer_seg.as_ref(), &outer, &inner, name, &inner_text, *remove, columns);
        let g = if columns {
          got.as_ref().map_or(At::Un, |r| r.lookup(gl, c))
        } else {
          // (file, line) of the line's first mapped segment
          match got.as_ref().and_then(|r| r.lines.get(li)).and_then(|l| l.iter().find(|s| s.orig.is_some())) {
            Some(s) => got.as_ref().unwrap().resolve(s),
            None => At::Un,
          }
        };
        obs.count(if columns { "positions_compared" } else { "lines_compared" }, 1);
        let ok = match (&exp, &g) {
          (Expect::Un, At::Un) => {
            other += 1;
            true
          }
          (Expect::Exact { file, content, line, col, name }, At::Map { file: f, content: ct, line: ln, col: cl, name: n }) => {
            other += 1;
            f == file
              && ln == line
              && (!columns || (cl == col && n == name))
              && nonempty(ct.clone()) == *content
          }
          (Expect::Inner { file, content, line, col_lo, col_hi, inner_name, outer_name }, At::Map { file: f, content: ct, line: ln, col: cl, name: n }) => {
            composed += 1;
            let base = f == file && ln == line && nonempty(ct.clone()) == *content;
            if !columns {
              base
            } else {
              let col_ok = cl >= col_lo && cl <= col_hi;
              // names: inner name when the column was not advanced; otherwise
              // none, or the outer name if the original text there equals it
              let orig_text = content.as_deref().map(|c| text_at(c, *line, *cl)).unwrap_or_default();
              let outer_ok = outer_name.as_ref().is_some_and(|on| n.as_ref() == Some(on) && orig_text.starts_with(on.as_str()) && !on.is_empty());
              let name_ok = if cl == col_lo && inner_name.is_some() {
                n == inner_name
              } else {
                n.is_none() || (inner_name.is_some() && n == inner_name && cl == col_lo) || outer_ok
              };
              base && col_ok && name_ok
            }
          }
          _ => false,
        };
        if !ok {
          obs.fail(
            if columns { "composition_columns" } else { "composition_lines" },
            ctx(format!("position {gl}:{c}: expected {:?}, map() gives {:?}", exp, g.without_content())),
          );
          break 'lines;
        }
      }
    }
  }
  if *remove {
    obs.class("remove_original_source");
  }
  if original.is_some() {
    obs.class("original_source_given");
  } else {
    obs.class("original_from_outer_content");
  }
  if outer_m.sources.len() > 1 {
    obs.class("outer_pass_through_sources");
  }
  if composed > 0 && other > 0 {
    obs.nontrivial();
  }
}
