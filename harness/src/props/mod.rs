//! One monitor per property. A monitor is (generator of a serialisable case,
//! checker of a case). Checkers only look at events recorded at the public
//! API boundary (plus the guarded hooks).

use serde_json::Value;

use crate::{obs::Obs, rng::Rng};

pub mod c01;
pub mod c02;
pub mod c03;
pub mod c04;
pub mod c05;
pub mod c06;
pub mod c07;
pub mod c08;
pub mod c09;
pub mod c10;
pub mod c11;
pub mod c12;
pub mod c13;
pub mod c14;
pub mod c15;
pub mod c16;
pub mod c17;
pub mod c18;
pub mod c19;

#[derive(Clone, Copy, Debug, PartialEq, Eq)]
pub enum Tier {
  Quick,
  Thorough,
}

#[derive(Clone, Copy, Debug, PartialEq, Eq)]
pub enum PanicPolicy {
  /// a panic inside the library is a violation of this property
  Violation,
  /// a panic only makes the case unevaluated (it belongs to C17 / C19)
  Count,
  /// only a failed unsafe-site precondition is a violation (C19)
  UnsafeOnly,
}

pub struct PropDef {
  pub id: &'static str,
  pub gen: fn(&mut Rng, Tier) -> Value,
  pub check: fn(&Value, &mut Obs),
  pub panic_policy: PanicPolicy,
  /// how cases are generated and what makes one non-trivial
  pub rule: &'static str,
  /// total cases per tier (split over shards)
  pub cases: fn(Tier) -> usize,
}

/// Exhaustive enumerations that precede the random cases of a property:
/// global case number -> case (None when the enumeration is exhausted).
pub fn enumeration(id: &str) -> Option<fn(u64, Tier) -> Option<Value>> {
  match id {
    "C16" => Some(c16::enum_case),
    "C19" => Some(c19::enum_case),
    "C20" => Some(c14::enum_case20),
    "C12" => Some(c12::enum_case),
    _ => None,
  }
}

pub fn all() -> Vec<PropDef> {
  vec![c01::def(), c02::def(), c03::def(), c04::def(), c05::def(), c06::def(), c07::def(), c08::def(), c09::def(), c10::def(), c11::def(), c12::def(), c13::def(), c14::def(), c14::def20(), c15::def(), c16::def(), c17::def(), c18::def(), c18::def_stress(), c18::def_miri(), c19::def(), c19::def_miri()]
}

pub fn find(id: &str) -> Option<PropDef> {
  all().into_iter().find(|p| p.id == id)
}

/// Known-finding triggers: precise predicates over (case, clause, detail).
pub fn trigger(name: &str) -> Option<fn(&Value, &str, &str) -> bool> {
  match name {
    "sms_map_without_mapped_segment" => Some(trig_sms_map_without_mapped_segment),
    "cached_under_replace" => Some(trig_cached_under_replace),
    "nonascii_under_nested_replace" => Some(trig_nonascii_under_nested_replace),
    "nonascii_cached_replay" => Some(trig_nonascii_cached_replay),
    "replace_empty_ops_finer_column" => Some(c13::trig_replace_empty_ops_finer_column),
    _ => None,
  }
}

/// map() is delegated (through Cached / Boxed / ReplaceSource without
/// replacements) to a SourceMapSource leaf without inner map, which returns
/// the map it was given even though no segment of it maps a character of the
/// text.
fn trig_sms_map_without_mapped_segment(case: &Value, clause: &str, _d: &str) -> bool {
  if clause != "map_some_but_no_mapped_chunk" {
    return false;
  }
  let spec = spec_of(case);
  matches!(
    spec.map_delegate(),
    crate::spec::Spec::SourceMap { inner: None, .. }
  )
}

/// A ReplaceSource with replacements over non-ASCII text whose inner tree
/// contains another ReplaceSource with replacements, a SourceMapSource or a
/// custom map-driven source (sources that count columns in characters).
fn trig_nonascii_under_nested_replace(case: &Value, _clause: &str, _d: &str) -> bool {
  use crate::spec::Spec;
  let spec = spec_of(case);
  spec.contains(&|s| match s {
    Spec::Replace { inner, ops } if !ops.is_empty() => {
      (has_non_ascii_ingredient(inner) || ops.iter().any(|o| !o.content.is_ascii()))
        && inner.contains(&|i| match i {
          Spec::Replace { ops, .. } => !ops.is_empty(),
          Spec::SourceMap { .. } | Spec::Custom { map: Some(_), .. } => true,
          _ => false,
        })
    }
    _ => false,
  })
}

/// The tree has a CachedSource and non-ASCII text, and the same tree with
/// every CachedSource removed passes the clause: columns of non-ASCII text are
/// counted in bytes by OriginalSource / ReplaceSource but in characters by the
/// map-driven streaming that CachedSource uses to replay, so the replay cuts
/// and attributes the text differently from the first stream.
fn trig_nonascii_cached_replay(case: &Value, clause: &str, _d: &str) -> bool {
  let spec = spec_of(case);
  // (a leaf's text or a replacement's content, not the output: a replacement
  // may delete the non-ASCII part again)
  let non_ascii_leaf = has_non_ascii_ingredient(&spec);
  if !non_ascii_leaf || !spec.contains(&|s| matches!(s, crate::spec::Spec::Cached { .. })) {
    return false;
  }
  let Some(prop) = case.get("property").and_then(|p| p.as_str()).and_then(find) else {
    return false;
  };
  let mut c = case.clone();
  c["spec"] = spec.without_cached().to_json();
  c["b"] = Value::Null;
  let obs = crate::worker::eval(&prop, &c);
  !obs.has_clause(clause) && obs.inconclusive.is_empty()
}

/// The tree has a CachedSource beneath a ReplaceSource with replacements and
/// the same tree without those CachedSource nodes passes the clause: the
/// replay path of the cache delivers coarser chunks than the first stream,
/// and ReplaceSource's column advance depends on chunk boundaries.
fn trig_cached_under_replace(case: &Value, clause: &str, _d: &str) -> bool {
  let spec = spec_of(case);
  if !spec.has_cached_under_replace() {
    return false;
  }
  let Some(prop) = case
    .get("property")
    .and_then(|p| p.as_str())
    .and_then(find)
  else {
    return false;
  };
  let mut c = case.clone();
  c["spec"] = spec.without_cached_under_replace().to_json();
  let obs = crate::worker::eval(&prop, &c);
  !obs.has_clause(clause) && obs.inconclusive.is_empty()
}

/// Some leaf text or replacement content of the tree is not ASCII.
pub fn has_non_ascii_ingredient(spec: &crate::spec::Spec) -> bool {
  use crate::spec::Spec;
  spec.contains(&|s| match s {
    Spec::Concat { .. } | Spec::Cached { .. } | Spec::Boxed { .. } => false,
    Spec::Replace { ops, .. } => ops.iter().any(|o| !o.content.is_ascii()),
    leaf => !leaf.model_text().is_ascii(),
  })
}

/// A short random call history applied to the object under test before the
/// checked call (half of the cases have none): the statement of every
/// single-call property also covers objects that were used before, and what
/// differs is the state of the caches (CachedSource maps / hash, lazily
/// decoded buffers, ReplaceSource's sorted order).
/// 0 stream(columns) 1 stream(lines) 2 map(columns) 3 map(lines) 4 source
/// 5 hash 6 map(columns) of a clone 7 buffer + size
pub fn gen_prelude(rng: &mut Rng) -> Vec<u8> {
  if rng.chance(1, 2) {
    return Vec::new();
  }
  (0..rng.range(1, 3)).map(|_| rng.below(8) as u8).collect()
}

pub fn run_prelude(case: &Value, src: &rspack_sources::BoxSource, obs: &mut crate::obs::Obs) {
  use rspack_sources::{MapOptions, Source};
  let Some(ops) = case.get("prelude").and_then(|v| v.as_array()) else {
    return;
  };
  for op in ops {
    obs.count("prelude_calls", 1);
    match op.as_u64().unwrap_or(0) {
      0 => {
        let _ = crate::record::record(src, &MapOptions::new(true));
      }
      1 => {
        let _ = crate::record::record(src, &MapOptions::new(false));
      }
      2 => {
        let _ = src.map(&MapOptions::new(true));
      }
      3 => {
        let _ = src.map(&MapOptions::new(false));
      }
      4 => {
        let _ = src.source();
      }
      5 => {
        let _ = crate::spec::stable_hash(src);
      }
      6 => {
        let c: Box<dyn Source> = dyn_clone::clone_box(&**src);
        let _ = c.map(&MapOptions::new(true));
      }
      _ => {
        let _ = (src.buffer().len(), src.size());
      }
    }
  }
  if !ops.is_empty() {
    obs.class("object_used_before_the_checked_call");
  }
}

/// Build the object under test; when the case says so, equal `Cached` nodes
/// of the tree are one shared instance / clones sharing one cache (see
/// `spec::share_cached_instances`). Reference objects are always built with
/// `build_box` (no sharing).
pub fn build_under_test(case: &Value, spec: &crate::spec::Spec, obs: &mut crate::obs::Obs) -> rspack_sources::BoxSource {
  let share = case.get("share_instances").and_then(|v| v.as_bool()).unwrap_or(false);
  if !share {
    return crate::spec::build_box(spec);
  }
  crate::spec::share_cached_instances(true);
  let b = crate::spec::build_box(spec);
  let shared = crate::spec::shared_cached_hits();
  crate::spec::note_node_hits();
  crate::spec::share_cached_instances(false);
  if shared > 0 {
    obs.class("cached_instance_shared_between_places");
  }
  if crate::spec::shared_node_hits_last() > 0 {
    obs.class("stateful_node_shared_between_places");
  }
  b
}

pub fn spec_of(case: &Value) -> crate::spec::Spec {
  serde_json::from_value(case["spec"].clone()).expect("case.spec")
}
