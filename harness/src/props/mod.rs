//! One monitor per property. A monitor is (generator of a serialisable case,
//! checker of a case). Checkers only look at events recorded at the public
//! API boundary (plus the guarded hooks).

use serde_json::Value;

use crate::{obs::Obs, rng::Rng};

pub mod c01;
pub mod c02;
pub mod c03;

#[derive(Clone, Copy, Debug, PartialEq, Eq)]
pub enum Tier {
  Quick,
  Thorough,
}

#[derive(Clone, Copy, Debug, PartialEq, Eq)]
pub enum PanicPolicy {
  /// a panic inside the library is a violation of this property
  Violation,
  /// a panic only makes the case unevaluated (it belongs to C17 / C19)
  Count,
}

pub struct PropDef {
  pub id: &'static str,
  pub gen: fn(&mut Rng, Tier) -> Value,
  pub check: fn(&Value, &mut Obs),
  pub panic_policy: PanicPolicy,
  /// how cases are generated and what makes one non-trivial
  pub rule: &'static str,
  /// total cases per tier (split over shards)
  pub cases: fn(Tier) -> usize,
}

pub fn all() -> Vec<PropDef> {
  vec![c01::def(), c02::def(), c03::def()]
}

pub fn find(id: &str) -> Option<PropDef> {
  all().into_iter().find(|p| p.id == id)
}

/// Known-finding triggers: precise predicates over (case, clause, detail).
pub fn trigger(name: &str) -> Option<fn(&Value, &str, &str) -> bool> {
  match name {
    _ => None,
  }
}

pub fn spec_of(case: &Value) -> crate::spec::Spec {
  serde_json::from_value(case["spec"].clone()).expect("case.spec")
}
