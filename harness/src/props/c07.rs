//! C07 — all content views of a source agree; writer faults are propagated.

use std::io::Write;

use serde_json::{json, Value};

use super::{PanicPolicy, PropDef, Tier};
use crate::{
  gen::{gen_case, GenCfg},
  obs::Obs,
  rng::Rng,
  spec::build_box,
};

pub fn def() -> PropDef {
  PropDef {
    id: "C07",
    gen,
    check,
    panic_policy: PanicPolicy::Count,
    rule: "random source trees incl. multi-byte text and invalid UTF-8 buffers; the five views are taken in a random order, again in reverse order and on a clone, compared with each other and with the byte/text model of the spec; to_writer is run against a writer that accepts k bytes (also in short writes) and then fails, for every k <= len (thorough) / <=12 sampled k (quick); non-trivial = a composite tree with >= 2 leaves, non-empty text and >= 1 injected writer fault; distinct = spec fingerprint",
    cases: |t| match t {
      Tier::Quick => 150_000,
      Tier::Thorough => 1_500_000,
    },
  }
}

fn gen(rng: &mut Rng, tier: Tier) -> Value {
  crate::gen::HUGE_TEXTS.store(true, std::sync::atomic::Ordering::Relaxed);
  let depth = match tier {
    Tier::Quick => rng.range(1, 3),
    Tier::Thorough => rng.range(1, 5),
  };
  let mut cfg = GenCfg::hostile(depth);
  cfg.wild_maps = false;
  // "all source trees": also replacements whose end lies before their start
  cfg.reversed_ops = true;
  let spec = gen_case(rng, &cfg);
  json!({ "spec": spec, "fault_seed": rng.next_u64() % 1_000_000, "all_k": tier == Tier::Thorough })
}

/// Accepts `limit` bytes in total, at most `max_per_write` per call, then
/// fails with a recognisable error.
struct FaultyWriter {
  written: Vec<u8>,
  limit: usize,
  max_per_write: usize,
  failed: bool,
}

impl Write for FaultyWriter {
  fn write(&mut self, buf: &[u8]) -> std::io::Result<usize> {
    if self.written.len() >= self.limit {
      self.failed = true;
      return Err(std::io::Error::new(std::io::ErrorKind::Other, "injected fault"));
    }
    let n = buf
      .len()
      .min(self.max_per_write)
      .min(self.limit - self.written.len());
    self.written.extend_from_slice(&buf[..n]);
    Ok(n)
  }
  fn flush(&mut self) -> std::io::Result<()> {
    Ok(())
  }
}

fn check(case: &Value, obs: &mut Obs) {
  let spec = super::spec_of(case);
  let src = build_box(&spec);
  // the five views are taken in a random order (lazily decoded / cached
  // representations make the first view special), then all again in the
  // reverse order, and finally on a clone: every round must agree with the first
  let mut order: Vec<u8> = vec![0, 1, 2, 3, 4];
  {
    let mut r = Rng::new(case["fault_seed"].as_u64().unwrap_or(0) ^ 0x5eed);
    for i in (1..order.len()).rev() {
      order.swap(i, r.below(i + 1));
    }
  }
  type Views = (String, String, Vec<u8>, usize, Vec<u8>, bool);
  let take = |s: &rspack_sources::BoxSource, order: &[u8]| -> Views {
    let mut v: Views = Default::default();
    for k in order {
      match k {
        0 => v.0 = s.source().to_string(),
        1 => v.1 = s.rope().to_string(),
        2 => v.2 = s.buffer().to_vec(),
        3 => v.3 = s.size(),
        _ => {
          let mut w = Vec::new();
          v.5 = s.to_writer(&mut w).is_err();
          v.4 = w;
        }
      }
    }
    v
  };
  let first = take(&src, &order);
  let rev: Vec<u8> = order.iter().rev().copied().collect();
  let second = take(&src, &rev);
  let cl: rspack_sources::BoxSource = rspack_sources::BoxSource::from(dyn_clone::clone_box(&*src));
  let third = take(&cl, &order);
  obs.count("view_rounds", 3);
  obs.count("trees", 1);
  let mb = spec.model_bytes();
  let mt = spec.model_text();
  let all_utf8 = spec.is_all_utf8();
  // the byte / text model is defined for start <= end only
  let modelled = !spec.has_reversed_op();
  if !modelled {
    obs.class("reversed_replacement_range(views compared with each other only)");
  }
  if !all_utf8 {
    obs.class("invalid_utf8_leaf");
  }
  for (who, (source, rope, buffer, size, w, werr)) in
    [("object", &first), ("object asked again in reverse order", &second), ("clone", &third)]
  {
    let who = format!("{who} (view order {order:?})");
    if rope != source {
      obs.fail("rope_vs_source", format!("{who}: rope() renders {rope:?}, source() is {source:?}"));
    }
    if *size != buffer.len() {
      obs.fail("size_vs_buffer", format!("{who}: size() = {size}, buffer().len() = {}", buffer.len()));
    }
    if *werr || w != buffer {
      obs.fail(
        "to_writer_vs_buffer",
        format!("{who}: to_writer wrote {:?} ({:?}), buffer() is {:?}", String::from_utf8_lossy(w), werr, String::from_utf8_lossy(buffer)),
      );
    }
    if all_utf8 && buffer != source.as_bytes() {
      obs.fail("buffer_vs_source_utf8", format!("{who}: all leaves UTF-8 but buffer() {:?} != source() {:?}", String::from_utf8_lossy(buffer), source));
    }
    // against the spec model (exact bytes given; lossy decoding; concatenation in order)
    if modelled && *buffer != mb {
      obs.fail("buffer_vs_model", format!("{who}: buffer() {:?} != model bytes {:?}", buffer, mb));
    }
    if modelled && *source != mt {
      obs.fail("source_vs_model", format!("{who}: source() {source:?} != model text {mt:?}"));
    }
  }
  let buffer = first.2;
  // fault injection
  let len = buffer.len();
  let all_k = case["all_k"].as_bool().unwrap_or(false);
  let mut rng = Rng::new(case["fault_seed"].as_u64().unwrap_or(0));
  let ks: Vec<usize> = if all_k || len <= 12 {
    (0..=len).collect()
  } else {
    let mut v = vec![0, 1, len - 1, len];
    for _ in 0..8 {
      v.push(rng.below(len + 1));
    }
    v
  };
  let mut faults = 0;
  for k in ks {
    let max_per_write = *rng.pick(&[usize::MAX, usize::MAX, 1, 3, 7]);
    let mut fw = FaultyWriter {
      written: Vec::new(),
      limit: k,
      max_per_write,
      failed: false,
    };
    let res = src.to_writer(&mut fw);
    obs.count("writer_faults_injected", 1);
    faults += 1;
    if !buffer.starts_with(&fw.written) {
      obs.fail("fault_prefix", format!("writer limited to {k} bytes received {:?}, not a prefix of buffer() {:?}", String::from_utf8_lossy(&fw.written), String::from_utf8_lossy(&buffer)));
    }
    if k < len {
      // the writer cannot take everything: the error must come back
      match res {
        Ok(()) => obs.fail("fault_swallowed", format!("writer failed after {k} of {len} bytes but to_writer returned Ok (written {})", fw.written.len())),
        Err(e) => {
          if e.to_string() != "injected fault" && e.kind() != std::io::ErrorKind::WriteZero {
            obs.fail("fault_other_error", format!("k={k}: error {e:?} is not the injected one"));
          }
        }
      }
    } else if res.is_err() || fw.written != buffer {
      obs.fail("fault_none_but_error", format!("writer accepting all {len} bytes: result {:?}, wrote {} bytes", res.is_err(), fw.written.len()));
    }
  }
  spec.walk(&mut |s| obs.class(s.kind()));
  let mut leaves = 0;
  spec.walk(&mut |s| {
    if !matches!(s, crate::spec::Spec::Concat { .. } | crate::spec::Spec::Replace { .. } | crate::spec::Spec::Cached { .. } | crate::spec::Spec::Boxed { .. }) {
      leaves += 1
    }
  });
  if leaves >= 2 && !buffer.is_empty() && faults > 0 {
    obs.nontrivial();
  }
}
