//! C07 — all content views of a source agree; writer faults are propagated.

use std::io::Write;

use serde_json::{json, Value};

use super::{PanicPolicy, PropDef, Tier};
use crate::{
  gen::{gen_case, GenCfg},
  obs::Obs,
  rng::Rng,
  spec::build_box,
};

pub fn def() -> PropDef {
  PropDef {
    id: "C07",
    gen,
    check,
    panic_policy: PanicPolicy::Count,
    rule: "random source trees incl. multi-byte text and invalid UTF-8 buffers; the five views are compared with each other and with the byte/text model of the spec; to_writer is run against a writer that accepts k bytes (also in short writes) and then fails, for every k <= len (thorough) / <=12 sampled k (quick); non-trivial = a composite tree with >= 2 leaves, non-empty text and >= 1 injected writer fault; distinct = spec fingerprint",
    cases: |t| match t {
      Tier::Quick => 150_000,
      Tier::Thorough => 1_500_000,
    },
  }
}

fn gen(rng: &mut Rng, tier: Tier) -> Value {
  crate::gen::HUGE_TEXTS.store(true, std::sync::atomic::Ordering::Relaxed);
  let depth = match tier {
    Tier::Quick => rng.range(1, 3),
    Tier::Thorough => rng.range(1, 5),
  };
  let mut cfg = GenCfg::hostile(depth);
  cfg.wild_maps = false;
  let spec = gen_case(rng, &cfg);
  json!({ "spec": spec, "fault_seed": rng.next_u64() % 1_000_000, "all_k": tier == Tier::Thorough })
}

/// Accepts `limit` bytes in total, at most `max_per_write` per call, then
/// fails with a recognisable error.
struct FaultyWriter {
  written: Vec<u8>,
  limit: usize,
  max_per_write: usize,
  failed: bool,
}

impl Write for FaultyWriter {
  fn write(&mut self, buf: &[u8]) -> std::io::Result<usize> {
    if self.written.len() >= self.limit {
      self.failed = true;
      return Err(std::io::Error::new(std::io::ErrorKind::Other, "injected fault"));
    }
    let n = buf
      .len()
      .min(self.max_per_write)
      .min(self.limit - self.written.len());
    self.written.extend_from_slice(&buf[..n]);
    Ok(n)
  }
  fn flush(&mut self) -> std::io::Result<()> {
    Ok(())
  }
}

fn check(case: &Value, obs: &mut Obs) {
  let spec = super::spec_of(case);
  let src = build_box(&spec);
  let source = src.source().to_string();
  let rope = src.rope().to_string();
  let buffer = src.buffer().to_vec();
  let size = src.size();
  let mut w = Vec::new();
  let wres = src.to_writer(&mut w);
  obs.count("trees", 1);
  if rope != source {
    obs.fail("rope_vs_source", format!("rope() renders {rope:?}, source() is {source:?}"));
  }
  if size != buffer.len() {
    obs.fail("size_vs_buffer", format!("size() = {size}, buffer().len() = {}", buffer.len()));
  }
  if wres.is_err() || w != buffer {
    obs.fail(
      "to_writer_vs_buffer",
      format!("to_writer wrote {:?} ({:?}), buffer() is {:?}", String::from_utf8_lossy(&w), wres.is_err(), String::from_utf8_lossy(&buffer)),
    );
  }
  if spec.is_all_utf8() {
    if buffer != source.as_bytes() {
      obs.fail("buffer_vs_source_utf8", format!("all leaves UTF-8 but buffer() {:?} != source() {:?}", String::from_utf8_lossy(&buffer), source));
    }
  } else {
    obs.class("invalid_utf8_leaf");
  }
  // against the spec model (exact bytes given; lossy decoding; concatenation in order)
  let mb = spec.model_bytes();
  let mt = spec.model_text();
  if buffer != mb {
    obs.fail("buffer_vs_model", format!("buffer() {:?} != model bytes {:?}", buffer, mb));
  }
  if source != mt {
    obs.fail("source_vs_model", format!("source() {source:?} != model text {mt:?}"));
  }
  // fault injection
  let len = buffer.len();
  let all_k = case["all_k"].as_bool().unwrap_or(false);
  let mut rng = Rng::new(case["fault_seed"].as_u64().unwrap_or(0));
  let ks: Vec<usize> = if all_k || len <= 12 {
    (0..=len).collect()
  } else {
    let mut v = vec![0, 1, len - 1, len];
    for _ in 0..8 {
      v.push(rng.below(len + 1));
    }
    v
  };
  let mut faults = 0;
  for k in ks {
    let max_per_write = *rng.pick(&[usize::MAX, usize::MAX, 1, 3, 7]);
    let mut fw = FaultyWriter {
      written: Vec::new(),
      limit: k,
      max_per_write,
      failed: false,
    };
    let res = src.to_writer(&mut fw);
    obs.count("writer_faults_injected", 1);
    faults += 1;
    if !buffer.starts_with(&fw.written) {
      obs.fail("fault_prefix", format!("writer limited to {k} bytes received {:?}, not a prefix of buffer() {:?}", String::from_utf8_lossy(&fw.written), String::from_utf8_lossy(&buffer)));
    }
    if k < len {
      // the writer cannot take everything: the error must come back
      match res {
        Ok(()) => obs.fail("fault_swallowed", format!("writer failed after {k} of {len} bytes but to_writer returned Ok (written {})", fw.written.len())),
        Err(e) => {
          if e.to_string() != "injected fault" && e.kind() != std::io::ErrorKind::WriteZero {
            obs.fail("fault_other_error", format!("k={k}: error {e:?} is not the injected one"));
          }
        }
      }
    } else if res.is_err() || fw.written != buffer {
      obs.fail("fault_none_but_error", format!("writer accepting all {len} bytes: result {:?}, wrote {} bytes", res.is_err(), fw.written.len()));
    }
  }
  spec.walk(&mut |s| obs.class(s.kind()));
  let mut leaves = 0;
  spec.walk(&mut |s| {
    if !matches!(s, crate::spec::Spec::Concat { .. } | crate::spec::Spec::Replace { .. } | crate::spec::Spec::Cached { .. } | crate::spec::Spec::Boxed { .. }) {
      leaves += 1
    }
  });
  if leaves >= 2 && !buffer.is_empty() && faults > 0 {
    obs.nontrivial();
  }
}
