//! C11 — produced source maps and chunk streams are well-formed.

use std::collections::BTreeSet;

use rspack_sources::{verif::map_options, MapOptions, Source};
use serde_json::{json, Value};

use super::{PanicPolicy, PropDef, Tier};
use crate::{
  model::{attr::end_position, vlq},
  obs::Obs,
  record::{record, Ev, Rec},
  rng::Rng,
};

pub fn def() -> PropDef {
  PropDef {
    id: "C11",
    gen,
    check,
    panic_policy: PanicPolicy::Count,
    rule: "random ASCII source trees with consistent leaf maps (as C02); map() for both column settings is checked for charset, decodability by the reference decoder, strictly increasing generated positions before the end of source(), indices inside the tables; all four stream modes are checked for announce-before-use and dense announced indices; non-trivial = a composite tree whose map has >= 2 mapped segments and whose streams announced >= 1 source; trees repeat an earlier sibling now and then and, in every second case, equal Cached nodes of the tree under test are one shared instance / clones sharing one cache; the object is used before the checked call by a random prelude of 0-3 observer calls; distinct = spec fingerprint",
    cases: |t| match t {
      Tier::Quick => 150_000,
      Tier::Thorough => 2_000_000,
    },
  }
}

fn gen(rng: &mut Rng, tier: Tier) -> Value {
  json!({ "spec": super::c02::ascii_tree_case(rng, tier), "prelude": super::gen_prelude(rng), "share_instances": rng.chance(1, 2) })
}

pub fn check_stream_order(rec: &Rec, mode: &str, obs: &mut Obs) -> usize {
  let mut sources: BTreeSet<u32> = BTreeSet::new();
  let mut names: BTreeSet<u32> = BTreeSet::new();
  for e in &rec.events {
    match e {
      Ev::Source { idx, .. } => {
        sources.insert(*idx);
      }
      Ev::Name { idx, .. } => {
        names.insert(*idx);
      }
      Ev::Chunk { seg, .. } => {
        if let Some(o) = &seg.orig {
          obs.count("chunk_indices_checked", 1);
          if !sources.contains(&o.src) {
            obs.fail(
              "source_used_before_announced",
              format!("{mode}: chunk at {}:{} uses source index {} not announced earlier (announced {:?})", seg.gl, seg.gc, o.src, sources),
            );
            return sources.len();
          }
          if let Some(n) = o.name {
            if !names.contains(&n) {
              obs.fail(
                "name_used_before_announced",
                format!("{mode}: chunk at {}:{} uses name index {} not announced earlier (announced {:?})", seg.gl, seg.gc, n, names),
              );
              return sources.len();
            }
          }
        }
      }
    }
  }
  for (what, set) in [("source", &sources), ("name", &names)] {
    let dense = set.iter().enumerate().all(|(i, v)| i as u32 == *v);
    if !dense {
      obs.fail(
        &format!("{what}_indices_not_dense"),
        format!("{mode}: announced {what} indices {:?} are not 0..n-1", set),
      );
    }
  }
  sources.len()
}

fn check(case: &Value, obs: &mut Obs) {
  let spec = super::spec_of(case);
  let src = super::build_under_test(case, &spec, obs);
  super::run_prelude(case, &src, obs);
  let source = src.source().to_string();
  let end = end_position(&source);
  let mut mapped_segments = 0;
  let mut announced = 0;
  for columns in [true, false] {
    if let Some(map) = src.map(&MapOptions::new(columns)) {
      obs.count("maps_checked", 1);
      let m = map.mappings();
      if !vlq::is_wellformed_charset(m) {
        obs.fail("mappings_charset", format!("columns={columns}: mappings {m:?} has characters outside base64, ',' and ';'"));
      }
      match vlq::decode(m) {
        Err(e) => obs.fail("mappings_undecodable", format!("columns={columns}: reference decoder rejects {m:?}: {e:?}")),
        Ok(segs) => {
          let mut prev: Option<(u32, u32)> = None;
          for s in &segs {
            obs.count("segments_checked", 1);
            if let Some(p) = prev {
              if (s.gl, s.gc) <= p {
                obs.fail("segments_not_increasing", format!("columns={columns}: segment {}:{} follows {}:{} in {m:?} (text {source:?})", s.gl, s.gc, p.0, p.1));
                break;
              }
            }
            prev = Some((s.gl, s.gc));
            if s.gl < 1 || (s.gl, s.gc) >= end {
              obs.fail("segment_not_before_end", format!("columns={columns}: segment {}:{} is not before the end {:?} of the text {source:?}; mappings {m:?}", s.gl, s.gc, end));
              break;
            }
            if let Some(o) = &s.orig {
              mapped_segments += 1;
              if o.src as usize >= map.sources().len() {
                obs.fail("source_index_outside_table", format!("columns={columns}: source index {} with {} sources; mappings {m:?}", o.src, map.sources().len()));
              }
              if let Some(n) = o.name {
                if n as usize >= map.names().len() {
                  obs.fail("name_index_outside_table", format!("columns={columns}: name index {} with {} names; mappings {m:?}", n, map.names().len()));
                }
              }
              if o.line < 1 {
                obs.fail("original_line_zero", format!("columns={columns}: original line 0 in {m:?}"));
              }
            }
          }
        }
      }
    }
    for final_source in [false, true] {
      let rec = record(&src, &map_options(columns, final_source));
      obs.count("streams_checked", 1);
      announced += check_stream_order(
        &rec,
        &format!("columns={columns} final_source={final_source}"),
        obs,
      );
    }
  }
  spec.walk(&mut |s| obs.class(s.kind()));
  if mapped_segments >= 2 && announced >= 1 && super::c01::is_composite(&spec) {
    obs.nontrivial();
  }
}
