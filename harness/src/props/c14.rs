//! C14 — equality, hashing and cloning are coherent and history-independent.
//! C20 — hashes separate observably different sources and are reproducible.

use std::hash::{Hash, Hasher};

use rspack_sources::{BoxSource, MapOptions, Source};
use serde_json::{json, Value};

use super::{PanicPolicy, PropDef, Tier};
use crate::{
  edit::edit,
  gen::{gen_tree, new_pool, GenCfg},
  obs::Obs,
  model::attr::{attr_lines_of_map, attr_lines_of_stream, attr_of_map, attr_of_stream, At},
  record::record,
  rng::Rng,
  spec::{build_box, stable_hash, Spec},
};

pub fn def() -> PropDef {
  PropDef {
    id: "C14",
    gen,
    check: check14,
    panic_policy: PanicPolicy::Count,
    rule: "random source trees (all node kinds incl. binary leaves, SourceMapSource with and without inner map, custom sources) A, a second build A' from the same constructor calls, a deep clone, and a tree B one edit away; random observer histories (source, buffer, size, rope, to_writer, map(t/f), stream(t/f), hash, clone) are applied to one or both operands; eq/hash are taken before and after, through BoxSource and &dyn Source; non-trivial = the tree has a node with a lazily filled cache (binary leaf, ReplaceSource with replacements, CachedSource) and the history observed it; distinct = case fingerprint",
    cases: |t| match t {
      Tier::Quick => 100_000,
      Tier::Thorough => 1_500_000,
    },
  }
}

pub fn def20() -> PropDef {
  PropDef {
    id: "C20",
    gen,
    check: check20,
    panic_policy: PanicPolicy::Count,
    rule: "random source trees A and B = A with one edit (leaf text / bytes / type, original file name, replacement start / end / content / name / enforce / added / removed, child added / removed / reordered, attached map mappings / sources / sourcesContent / names / sourceRoot / file / debugId / segment target / segment name, inner map, original source, remove flag, wrapper) at a random depth; when source(), buffer() or map() (either column setting) differ, hashes (FNV and SipHash, through BoxSource and &dyn Source) must differ and the values compare unequal; independently generated trees likewise; hashes are logged per spec fingerprint by every worker process (a shared case stream), recomputed in a second thread and after an observer history, and the merged log must be a function; non-trivial = the edit changed an observable; distinct = case fingerprint",
    cases: |t| match t {
      Tier::Quick => 100_000,
      Tier::Thorough => 1_500_000,
    },
  }
}

fn gen(rng: &mut Rng, tier: Tier) -> Value {
  let depth = match tier {
    Tier::Quick => rng.range(0, 2),
    Tier::Thorough => rng.range(0, 4),
  };
  let mut cfg = GenCfg::hostile(depth);
  cfg.wild_maps = false;
  // every constructible tree: also replacement ranges with end < start
  cfg.reversed_ops = true;
  cfg.max_text = if rng.chance(1, 2) { 10 } else { 30 };
  let mut pool = new_pool(rng, &cfg);
  let a = gen_tree(rng, &cfg, &mut pool, 0, false);
  let mut kinds = Vec::new();
  let b = edit(rng, &a, &pool, &mut kinds);
  let other = gen_tree(rng, &cfg, &mut pool, 0, false);
  let hist_a: Vec<u8> = (0..rng.below(8)).map(|_| rng.below(11) as u8).collect();
  let hist_b: Vec<u8> = (0..rng.below(5)).map(|_| rng.below(11) as u8).collect();
  json!({ "spec": a, "b": b, "other": other, "edit": kinds, "hist_a": hist_a, "hist_b": hist_b })
}

/// C20 only: cases every worker process generates identically (same stream
/// for all shards) so that hashes can be compared across processes.
pub fn enum_case20(index: u64, tier: Tier) -> Option<Value> {
  if index >= 16 * 64 {
    return None;
  }
  // all 16 shards see the same 64 cases: case k = index / 16
  let k = index / 16;
  let mut rng = Rng::derive(0xC20, 7, k);
  let mut c = gen(&mut rng, tier);
  c["shared_case"] = json!(k);
  Some(c)
}

#[derive(PartialEq, Debug)]
struct Snapshot {
  source: String,
  buffer: Vec<u8>,
  size: usize,
  rope: String,
  writer: Vec<u8>,
  /// maps are compared by what they attribute (a CachedSource may answer
  /// with the wrapped source's own map or with a re-encoded equivalent one)
  map_t: Result<Vec<Vec<At>>, String>,
  map_f: Result<Vec<Option<(String, u32)>>, String>,
  /// streams are compared by what they deliver and attribute, not by how
  /// the text is cut into chunks (a CachedSource replays coarser chunks)
  rec_t: (String, Vec<Vec<At>>, (u32, u32)),
  rec_f: (String, Vec<Option<(String, u32)>>, (u32, u32)),
}

fn snapshot(s: &BoxSource) -> Snapshot {
  let mut w = Vec::new();
  let _ = s.to_writer(&mut w);
  Snapshot {
    source: s.source().to_string(),
    buffer: s.buffer().to_vec(),
    size: s.size(),
    rope: s.rope().to_string(),
    writer: w,
    map_t: attr_of_map(&s.source(), s.map(&MapOptions::new(true)).as_ref())
      .map(|t| t.iter().map(|l| l.iter().map(|a| a.without_content()).collect()).collect()),
    map_f: attr_lines_of_map(&s.source(), s.map(&MapOptions::new(false)).as_ref()),
    rec_t: {
      let r = record(s, &MapOptions::new(true));
      let at = attr_of_stream(&r)
        .iter()
        .map(|l| l.iter().map(|a| a.without_content()).collect())
        .collect();
      (r.text(), at, r.end)
    },
    rec_f: {
      let r = record(s, &MapOptions::new(false));
      (r.text(), attr_lines_of_stream(&r), r.end)
    },
  }
}

fn snapshot_diff(a: &Snapshot, b: &Snapshot) -> Option<&'static str> {
  if a.source != b.source {
    Some("source()")
  } else if a.buffer != b.buffer {
    Some("buffer()")
  } else if a.size != b.size {
    Some("size()")
  } else if a.rope != b.rope {
    Some("rope()")
  } else if a.writer != b.writer {
    Some("to_writer()")
  } else if a.map_t != b.map_t {
    Some("map(columns=true)")
  } else if a.map_f != b.map_f {
    Some("map(columns=false)")
  } else if a.rec_t != b.rec_t {
    Some("stream(columns=true)")
  } else if a.rec_f != b.rec_f {
    Some("stream(columns=false)")
  } else {
    None
  }
}

/// `==` on two boxed sources (through references, as HashMap lookups do).
#[allow(clippy::op_ref)]
fn beq(a: &BoxSource, b: &BoxSource) -> bool {
  a == b
}

fn sip(s: &BoxSource) -> u64 {
  let mut h = std::collections::hash_map::DefaultHasher::new();
  s.hash(&mut h);
  h.finish()
}

fn dyn_hash(s: &BoxSource) -> u64 {
  let d: &dyn Source = &**s;
  stable_hash(d)
}

fn update_hash(s: &BoxSource) -> u64 {
  let mut h = crate::spec::Fnv(0xcbf29ce484222325);
  s.update_hash(&mut h);
  h.finish()
}

fn apply_history(s: &BoxSource, hist: &[u8]) {
  for k in hist {
    match k {
      0 => {
        let _ = s.source();
      }
      1 => {
        let _ = s.buffer();
      }
      2 => {
        let _ = s.size();
      }
      3 => {
        let _ = s.rope().len();
      }
      4 => {
        let _ = s.to_writer(&mut Vec::new());
      }
      5 => {
        let _ = s.map(&MapOptions::new(true));
      }
      6 => {
        let _ = s.map(&MapOptions::new(false));
      }
      7 => {
        let _ = record(s, &MapOptions::new(true));
      }
      8 => {
        let _ = record(s, &MapOptions::new(false));
      }
      9 => {
        let _ = sip(s);
      }
      _ => {
        let c: Box<dyn Source> = dyn_clone::clone_box(&**s);
        let _ = c.size();
      }
    }
  }
}

fn has_lazy_cache(s: &Spec) -> bool {
  s.contains(&|n| match n {
    Spec::RawBytes { .. } | Spec::RawBuffer { .. } | Spec::Cached { .. } => true,
    Spec::Replace { ops, .. } => !ops.is_empty(),
    _ => false,
  })
}

fn parse(case: &Value) -> (Spec, Option<Spec>, Spec, Vec<u8>, Vec<u8>) {
  (
    serde_json::from_value(case["spec"].clone()).unwrap(),
    serde_json::from_value(case["b"].clone()).unwrap_or(None),
    serde_json::from_value(case["other"].clone()).unwrap(),
    serde_json::from_value(case["hist_a"].clone()).unwrap_or_default(),
    serde_json::from_value(case["hist_b"].clone()).unwrap_or_default(),
  )
}

/// Clone a typed root, mutate the clone (and, in a second pass, the original)
/// and require that the other one still equals a fresh build in text, hash
/// and equality, and that the mutated one shows exactly the mutation.
fn clone_then_mutate(sa: &Spec, obs: &mut Obs) {
  use rspack_sources::{ConcatSource, RawSource, ReplaceSource, SourceExt};
  let text0 = build_box(sa).source().to_string();
  // `fresh`: an untouched object of the same concrete type, built the same way
  let judge = |who: &str, fresh: BoxSource, untouched: BoxSource, mutated: BoxSource, expect_mutated: &str, obs: &mut Obs| {
    let hash0 = stable_hash(&fresh);
    obs.count("clone_then_mutate", 1);
    if untouched.source() != text0 || stable_hash(&untouched) != hash0 || !beq(&untouched, &fresh) {
      obs.fail(
        "mutating_a_clone_changed_the_other",
        format!("{who}: the untouched one now reads {:?} (was {:?}), equal to a fresh build: {}; tree {}", untouched.source(), text0, beq(&untouched, &fresh), serde_json::to_string(sa).unwrap()),
      );
    }
    if mutated.source() != expect_mutated {
      obs.fail(
        "mutated_clone_wrong",
        format!("{who}: the mutated one reads {:?}, expected {:?}; tree {}", mutated.source(), expect_mutated, serde_json::to_string(sa).unwrap()),
      );
    }
    if beq(&untouched, &mutated) && text0 != expect_mutated {
      obs.fail("clone_still_equal_after_mutation", format!("{who}: == although the texts differ; tree {}", serde_json::to_string(sa).unwrap()));
    }
  };
  match sa {
    Spec::Concat { .. } => {
      for mutate_clone in [true, false] {
        let crate::spec::Built::Concat(orig) = crate::spec::build(sa) else { return };
        // observe first so that anything lazily computed exists before cloning
        let _ = (orig.source().len(), stable_hash(&orig));
        let mut orig: ConcatSource = orig;
        let fresh = crate::spec::build(sa).boxed();
        let mut cl = orig.clone();
        let expect = format!("{text0}+tail");
        if mutate_clone {
          cl.add(RawSource::from("+tail"));
          judge("ConcatSource clone.add()", fresh, orig.boxed(), cl.boxed(), &expect, obs);
        } else {
          orig.add(RawSource::from("+tail"));
          judge("ConcatSource original.add() after clone()", fresh, cl.boxed(), orig.boxed(), &expect, obs);
        }
      }
    }
    Spec::Replace { inner, ops } => {
      for mutate_clone in [true, false] {
        let mut orig = ReplaceSource::new(build_box(inner));
        ops.iter().for_each(|op| crate::spec::apply_op(&mut orig, op));
        let _ = (orig.source().len(), stable_hash(&orig));
        let fresh = {
          let mut f = ReplaceSource::new(build_box(inner));
          ops.iter().for_each(|op| crate::spec::apply_op(&mut f, op));
          f.boxed()
        };
        let mut cl = orig.clone();
        // an insertion in front of everything: Pre enforce at position 0
        let expect = {
          let mut all = ops.to_vec();
          all.push(crate::spec::Op { start: 0, end: 0, content: "HEAD+".into(), name: None, enforce: 0, plain_api: false, observe_before: false });
          crate::model::splice::splice_text(&inner.model_text(), &all)
        };
        let head = crate::spec::Op { start: 0, end: 0, content: "HEAD+".into(), name: None, enforce: 0, plain_api: false, observe_before: false };
        if !inner.is_all_utf8() || sa.has_reversed_op() {
          return;
        }
        if mutate_clone {
          crate::spec::apply_op(&mut cl, &head);
          judge("ReplaceSource clone + insert", fresh, orig.boxed(), cl.boxed(), &expect, obs);
        } else {
          crate::spec::apply_op(&mut orig, &head);
          judge("ReplaceSource original + insert after clone()", fresh, cl.boxed(), orig.boxed(), &expect, obs);
        }
      }
    }
    _ => {}
  }
}

fn check14(case: &Value, obs: &mut Obs) {
  // every second case builds equal-table maps as clones of each other
  // (clone() + set_file / set_source_root / set_debug_id), the way a program
  // derives one map from another: the values then share their allocations
  let share = case.get("share_tables").and_then(|v| v.as_bool()).unwrap_or_else(|| crate::rng::fnv(case.to_string().as_bytes()) % 2 == 0);
  crate::spec::share_map_tables(share);
  if share {
    obs.class("maps_derived_by_clone_and_setters");
  }
  let (sa, sb, _other, hist_a, hist_b) = parse(case);
  // the generator shared with C20 also draws replacement ranges with
  // end < start; for those the library's text and chunk stream differ (outside
  // the domain of C01 / C05), so observers cannot be expected to agree across
  // cache replays: C14 looks at the same trees with the ranges put in order
  let sa = sa.with_ordered_ranges();
  let sb = sb.map(|b| b.with_ordered_ranges()).filter(|b| *b != sa);
  let a = build_box(&sa);
  let a2 = build_box(&sa);
  let ctx = |s: String| format!("{s}; tree {}", serde_json::to_string(&sa).unwrap());
  // same constructor calls => equal, equal hashes
  obs.count("pairs", 1);
  if !beq(&a, &a2) {
    obs.fail("same_construction_not_equal", ctx("two builds of the same tree are != (fresh)".into()));
  }
  let (h0, s0, d0, u0) = (stable_hash(&a), sip(&a), dyn_hash(&a), update_hash(&a));
  if h0 != stable_hash(&a2) || s0 != sip(&a2) {
    obs.fail("same_construction_hash_differs", ctx("two builds of the same tree hash differently".into()));
  }
  if h0 != d0 || h0 != u0 {
    obs.fail("box_vs_dyn_hash", ctx(format!("hash through BoxSource {h0:x}, &dyn Source {d0:x}, update_hash {u0:x}")));
  }
  let ad: &dyn Source = &*a;
  let a2d: &dyn Source = &*a2;
  if ad != a2d {
    obs.fail("same_construction_not_equal", ctx("&dyn Source views of two builds are !=".into()));
  }
  // a clone that is changed afterwards leaves its original alone (typed
  // roots only: ConcatSource::add, ReplaceSource::replace / insert)
  clone_then_mutate(&sa, obs);
  // clone == original, observationally identical
  let cl: BoxSource = std::sync::Arc::from(dyn_clone::clone_box(&*a));
  if !beq(&cl, &a) || stable_hash(&cl) != h0 {
    obs.fail("clone_not_equal", ctx("a deep clone is != its original or hashes differently".into()));
  }
  // histories on one operand only
  apply_history(&a, &hist_a);
  if !beq(&a, &a2) || !beq(&a2, &a) {
    obs.fail("eq_changed_by_observers", ctx(format!("after observers {hist_a:?} on one operand, two builds of the same tree are !=")));
  }
  if stable_hash(&a) != h0 || sip(&a) != s0 {
    obs.fail("hash_changed_by_observers", ctx(format!("hash of a value changed after observers {hist_a:?}")));
  }
  if !beq(&cl, &a) {
    obs.fail("clone_not_equal", ctx(format!("clone != original after observers {hist_a:?} on the original")));
  }
  let cl2: BoxSource = std::sync::Arc::from(dyn_clone::clone_box(&*a));
  if !beq(&cl2, &a2) || stable_hash(&cl2) != h0 {
    obs.fail("clone_not_equal", ctx(format!("clone taken after observers {hist_a:?} != a fresh build, or hashes differently")));
  }
  // observers are idempotent and equal between equal values
  let snap_a = snapshot(&a);
  let snap_a_again = snapshot(&a);
  if let Some(w) = snapshot_diff(&snap_a, &snap_a_again) {
    obs.fail("observer_not_idempotent", ctx(format!("{w} answered differently the second time")));
  }
  let snap_a2 = snapshot(&a2);
  if let Some(w) = snapshot_diff(&snap_a, &snap_a2) {
    obs.fail("equal_values_observed_differently", ctx(format!("{w} differs between two equal values")));
  }
  let snap_cl = snapshot(&cl2);
  if let Some(w) = snapshot_diff(&snap_a, &snap_cl) {
    obs.fail("clone_observed_differently", ctx(format!("{w} differs between a value and its clone")));
  }
  if !beq(&a, &a2) || stable_hash(&a2) != h0 || stable_hash(&a) != h0 {
    obs.fail("eq_changed_by_observers", ctx("after full observation the two builds are != or hash changed".into()));
  }
  // one edit apart: eq / hash stable over histories; a == b => same hash and observers
  if let Some(sb) = &sb {
    let b = build_box(sb);
    let a3 = build_box(&sa);
    let e0 = beq(&a3, &b);
    let hb0 = stable_hash(&b);
    if e0 {
      obs.count("edited_pairs_equal", 1);
      if hb0 != h0 {
        obs.fail("equal_but_hash_differs", ctx(format!("a == b but hashes differ; b = {}", serde_json::to_string(sb).unwrap())));
      }
      if let Some(w) = snapshot_diff(&snapshot(&a3), &snapshot(&b)) {
        obs.fail("equal_values_observed_differently", ctx(format!("a == b but {w} differs; b = {}", serde_json::to_string(sb).unwrap())));
      }
    }
    apply_history(&b, &hist_b);
    apply_history(&a3, &hist_a);
    if beq(&a3, &b) != e0 || beq(&b, &a3) != e0 {
      obs.fail("eq_changed_by_observers", ctx(format!("a == b was {e0} and changed after observers; b = {}", serde_json::to_string(sb).unwrap())));
    }
    if stable_hash(&b) != hb0 {
      obs.fail("hash_changed_by_observers", ctx("hash of b changed after observers".into()));
    }
  }
  sa.walk(&mut |s| obs.class(s.kind()));
  if has_lazy_cache(&sa) && !hist_a.is_empty() {
    obs.nontrivial();
  }
}

fn observable_diff(a: &BoxSource, b: &BoxSource) -> Option<&'static str> {
  if a.source() != b.source() {
    return Some("source()");
  }
  if a.buffer() != b.buffer() {
    return Some("buffer()");
  }
  if a.map(&MapOptions::new(true)) != b.map(&MapOptions::new(true)) {
    return Some("map(columns=true)");
  }
  if a.map(&MapOptions::new(false)) != b.map(&MapOptions::new(false)) {
    return Some("map(columns=false)");
  }
  None
}

fn only_sms_name_differs(a: &Spec, b: &Spec) -> bool {
  // the name of a SourceMapSource is deliberately not hashed
  fn strip(s: &Spec) -> Spec {
    match s {
      Spec::SourceMap { text, map, original, inner, remove, .. } => Spec::SourceMap {
        text: text.clone(),
        name: String::new(),
        map: map.clone(),
        original: original.clone(),
        inner: inner.clone(),
        remove: *remove,
      },
      Spec::Concat { children, how } => Spec::Concat { children: children.iter().map(strip).collect(), how: *how },
      Spec::Replace { inner, ops } => Spec::Replace { inner: Box::new(strip(inner)), ops: ops.clone() },
      Spec::Cached { inner } => Spec::Cached { inner: Box::new(strip(inner)) },
      Spec::Boxed { inner } => Spec::Boxed { inner: Box::new(strip(inner)) },
      o => o.clone(),
    }
  }
  strip(a) == strip(b)
}

fn check20(case: &Value, obs: &mut Obs) {
  // every second case builds equal-table maps as clones of each other
  // (clone() + set_file / set_source_root / set_debug_id), the way a program
  // derives one map from another: the values then share their allocations
  let share = case.get("share_tables").and_then(|v| v.as_bool()).unwrap_or_else(|| crate::rng::fnv(case.to_string().as_bytes()) % 2 == 0);
  crate::spec::share_map_tables(share);
  if share {
    obs.class("maps_derived_by_clone_and_setters");
  }
  let (sa, sb, other, hist_a, _hist_b) = parse(case);
  let edit_kinds: Vec<String> = serde_json::from_value(case["edit"].clone()).unwrap_or_default();
  let a = build_box(&sa);
  let ha = (stable_hash(&a), sip(&a), dyn_hash(&a), update_hash(&a));
  let mut changed = false;
  let mut pairs: Vec<(&Spec, String)> = vec![(&other, "independent".to_string())];
  if let Some(sb) = &sb {
    pairs.push((sb, format!("edit {:?}", edit_kinds)));
  }
  for (sb, how) in pairs {
    if only_sms_name_differs(&sa, sb) {
      continue;
    }
    let b = build_box(sb);
    obs.count("pairs", 1);
    match observable_diff(&a, &b) {
      None => obs.count("pairs_without_observable_difference(skipped)", 1),
      Some(what) => {
        changed = true;
        obs.count("pairs_with_observable_difference", 1);
        let hb = (stable_hash(&b), sip(&b), dyn_hash(&b), update_hash(&b));
        let ctx = || format!("{how}: {what} differs; a = {}; b = {}", serde_json::to_string(&sa).unwrap(), serde_json::to_string(sb).unwrap());
        if ha.0 == hb.0 || ha.1 == hb.1 || ha.2 == hb.2 || ha.3 == hb.3 {
          obs.fail("hash_does_not_separate", format!("equal hashes ({:x}/{:x}) although {}", ha.0, hb.0, ctx()));
        }
        if beq(&a, &b) || beq(&b, &a) {
          obs.fail("eq_does_not_separate", format!("a == b although {}", ctx()));
        }
      }
    }
  }
  for k in &edit_kinds {
    obs.class(&format!("edit:{k}"));
  }
  // reproducibility: other thread, after a history, and across processes
  let sa2 = sa.clone();
  let from_thread = std::thread::spawn(move || {
    let x = build_box(&sa2);
    (stable_hash(&x), sip(&x))
  })
  .join()
  .unwrap();
  if from_thread != (ha.0, ha.1) {
    obs.fail("hash_differs_across_threads", format!("{:x?} vs {:x?} for {}", from_thread, (ha.0, ha.1), serde_json::to_string(&sa).unwrap()));
  }
  apply_history(&a, &hist_a);
  if (stable_hash(&a), sip(&a), dyn_hash(&a), update_hash(&a)) != ha {
    obs.fail("hash_depends_on_history", format!("hash changed after observers {hist_a:?}: {}", serde_json::to_string(&sa).unwrap()));
  }
  if case.get("shared_case").is_some() {
    obs.log.push((format!("{:016x}", sa.fingerprint()), format!("{:016x}:{:016x}", ha.0, ha.1)));
    obs.class("shared_case(cross-process)");
  }
  if changed {
    obs.nontrivial();
  }
}
