//! C06 — composites preserve what their children attribute.

use rspack_sources::{MapOptions, Source};
use serde_json::{json, Value};

use super::{PanicPolicy, PropDef, Tier};
use crate::{
  gen::{gen_ops, gen_tree, new_pool, GenCfg},
  model::{
    attr::{attr_of_map, end_position, lines_of, At, Resolved},
    splice::{splice_plan, From},
  },
  obs::Obs,
  record::record,
  rng::Rng,
  spec::{build_box, How, Op, Spec},
};

pub fn def() -> PropDef {
  PropDef {
    id: "C06",
    gen,
    check,
    panic_policy: PanicPolicy::Count,
    rule: "random ASCII composites: ConcatSource over 2-4 random child trees and ReplaceSource over a random inner tree (children include SourceMapSource leaves with several sources and names, shared and distinct file names, with/without sourcesContent, named ReplaceSources announcing names lazily); Concat: attribution through the composite's map() at every position of child k equals child k's own (file, content, line, column, name; per output line the first mapped child piece for columns=false); Replace: every surviving inner character and every replacement content character is looked up in map() and compared with the expectation derived from the inner chunk stream and the splice position map (exact column in the clean regime, bounds otherwise); non-trivial = >= 1 mapped position with a name or a second source compared and (Concat) >= 2 children with maps / (Replace) >= 1 cut inside a mapped chunk; distinct = spec fingerprint",
    cases: |t| match t {
      Tier::Quick => 150_000,
      Tier::Thorough => 2_000_000,
    },
  }
}

fn gen(rng: &mut Rng, tier: Tier) -> Value {
  let depth = match tier {
    Tier::Quick => rng.range(0, 2),
    Tier::Thorough => rng.range(0, 3),
  };
  let mut cfg = GenCfg::ascii_consistent(depth);
  cfg.cached_under_replace = false;
  cfg.max_text = if rng.chance(1, 3) { 12 } else { 30 };
  let mut pool = new_pool(rng, &cfg);
  let spec = if rng.chance(1, 2) {
    let n = rng.range(2, 4);
    Spec::Concat {
      children: (0..n).map(|_| gen_tree(rng, &cfg, &mut pool, 0, false)).collect(),
      how: *rng.pick(&[How::NewBoxed, How::Add, How::NewTyped]),
    }
  } else {
    let inner = gen_tree(rng, &cfg, &mut pool, 0, true);
    let mut ops = gen_ops(rng, &inner.model_text(), &cfg, &pool);
    if ops.is_empty() {
      ops = gen_ops(rng, &inner.model_text(), &cfg, &pool);
    }
    Spec::Replace {
      inner: Box::new(inner),
      ops,
    }
  };
  json!({ "spec": spec, "prelude": super::gen_prelude(rng) })
}

fn norm(a: &At) -> At {
  match a {
    At::Map { file, content, line, col, name } => At::Map {
      file: file.clone(),
      content: content.clone().filter(|c| !c.is_empty()),
      line: *line,
      col: *col,
      name: name.clone(),
    },
    At::Un => At::Un,
  }
}

fn check_concat(children: &[Spec], spec: &Spec, case: &Value, obs: &mut Obs) -> bool {
  let src = build_box(spec);
  super::run_prelude(case, &src, obs);
  let out = src.source().to_string();
  let mut interesting = false;
  // ---- columns = true
  let map = src.map(&MapOptions::new(true));
  let got = match attr_of_map(&out, map.as_ref()) {
    Ok(g) => g,
    Err(e) => {
      obs.fail("map_undecodable", e);
      return false;
    }
  };
  let flat_got: Vec<&At> = got.iter().flatten().collect();
  let mut offset = 0usize;
  let mut children_with_maps = 0;
  for (k, child) in children.iter().enumerate() {
    let csrc = build_box(child);
    let ctext = csrc.source().to_string();
    let cmap = csrc.map(&MapOptions::new(true));
    if cmap.is_some() {
      children_with_maps += 1;
    }
    let cattr = match attr_of_map(&ctext, cmap.as_ref()) {
      Ok(a) => a,
      Err(e) => {
        obs.fail("map_undecodable", format!("child {k}: {e}"));
        return false;
      }
    };
    let flat_child: Vec<&At> = cattr.iter().flatten().collect();
    if offset + flat_child.len() > flat_got.len() {
      obs.count("skipped_text_differs(C07)", 1);
      return false;
    }
    for (q, exp) in flat_child.iter().enumerate() {
      let g = flat_got[offset + q];
      obs.count("concat_positions_compared", 1);
      if let At::Map { name, .. } = exp {
        if name.is_some() {
          interesting = true;
        }
      }
      if norm(g) != norm(exp) {
        let same_but_content = g.without_content() == exp.without_content();
        obs.fail(
          if same_but_content { "concat_child_content" } else { "concat_child_attribution" },
          format!(
            "columns=true: child {k} position {q} (output byte {}): child alone says {:?}, composite says {:?}; composite mappings {:?} sources {:?} names {:?}; child mappings {:?}; text {out:?}",
            offset + q,
            if same_but_content { norm(exp) } else { exp.without_content() },
            if same_but_content { norm(g) } else { g.without_content() },
            map.as_ref().map(|m| m.mappings().to_string()),
            map.as_ref().map(|m| m.sources().to_vec()),
            map.as_ref().map(|m| m.names().to_vec()),
            cmap.as_ref().map(|m| m.mappings().to_string()),
          ),
        );
        return false;
      }
    }
    offset += flat_child.len();
  }
  // ---- columns = false: per output line the first mapped child piece
  let map0 = src.map(&MapOptions::new(false));
  let got0 = match map0.as_ref().map(Resolved::from_map) {
    Some(Err(e)) => {
      obs.fail("map_undecodable", e);
      return false;
    }
    Some(Ok(r)) => Some(r),
    None => None,
  };
  let nlines = lines_of(&out).len();
  let mut expected: Vec<Option<(String, u32)>> = vec![None; nlines];
  let (mut line, mut _col) = (1u32, 0u32);
  for child in children {
    let csrc = build_box(child);
    let ctext = csrc.source().to_string();
    let cmap = csrc.map(&MapOptions::new(false));
    let cres = match cmap.as_ref().map(Resolved::from_map) {
      Some(Ok(r)) => Some(r),
      Some(Err(e)) => {
        obs.fail("map_undecodable", e);
        return false;
      }
      None => None,
    };
    for (cl, _) in lines_of(&ctext).iter().enumerate() {
      let ol = line + cl as u32;
      if let Some(slot) = expected.get_mut(ol as usize - 1) {
        if slot.is_none() {
          *slot = cres.as_ref().and_then(|r| r.lookup_line(cl as u32 + 1));
        }
      }
    }
    let (el, ec) = end_position(&ctext);
    line += el - 1;
    _col = ec;
  }
  for (li, exp) in expected.iter().enumerate() {
    let g = got0.as_ref().and_then(|r| r.lookup_line(li as u32 + 1));
    obs.count("concat_lines_compared", 1);
    if &g != exp {
      obs.fail(
        "concat_line_attribution",
        format!("columns=false: output line {}: first mapped child piece says {:?}, composite says {:?}; composite mappings {:?}; text {out:?}", li + 1, exp, g, map0.as_ref().map(|m| m.mappings().to_string())),
      );
      break;
    }
  }
  interesting && children_with_maps >= 2
}

struct InnerChunk {
  start: usize,
  text: String,
  at: At,
}

fn check_replace(inner: &Spec, ops: &[Op], spec: &Spec, case: &Value, obs: &mut Obs) -> bool {
  let src = build_box(spec);
  super::run_prelude(case, &src, obs);
  let out = src.source().to_string();
  let inner_src = build_box(inner);
  let inner_text = inner_src.source().to_string();
  let rec = record(&inner_src, &MapOptions::new(true));
  if rec.text() != inner_text {
    obs.count("skipped_inner_stream_text_differs(C01)", 1);
    return false;
  }
  // inner chunks with resolved attribution
  let table = {
    let sources = rec.sources();
    Resolved {
      lines: vec![],
      sources: sources.iter().map(|s| s.as_ref().map_or("<unannounced>".to_string(), |s| s.0.clone())).collect(),
      contents: sources.iter().map(|s| s.as_ref().and_then(|s| s.1.clone())).collect(),
      names: rec.names().iter().map(|n| n.clone().unwrap_or("<unannounced>".into())).collect(),
    }
  };
  let mut chunks: Vec<InnerChunk> = Vec::new();
  let mut off = 0;
  for (text, seg) in rec.chunks() {
    let text = text.clone().unwrap_or_default();
    chunks.push(InnerChunk { start: off, at: table.resolve(seg), text: text.clone() });
    off += text.len();
  }
  let plan = splice_plan(inner_text.len(), ops);
  let model_out: String = plan
    .iter()
    .map(|f| match f {
      From::Inner(i) => inner_text.as_bytes()[*i] as char,
      From::Repl { op, k } => ops[*op].content.as_bytes()[*k] as char,
    })
    .collect();
  if model_out != out {
    obs.count("skipped_text_differs(C05)", 1);
    return false;
  }
  let map = src.map(&MapOptions::new(true));
  let got = match map.as_ref().map(Resolved::from_map) {
    Some(Err(e)) => {
      obs.fail("map_undecodable", e);
      return false;
    }
    Some(Ok(r)) => Some(r),
    None => None,
  };
  // output positions
  let mut positions = Vec::with_capacity(plan.len());
  let (mut l, mut c) = (1u32, 0u32);
  for ch in out.bytes() {
    positions.push((l, c));
    if ch == b'\n' {
      l += 1;
      c = 0;
    } else {
      c += 1;
    }
  }
  // cut points (clamped starts and ends of all replacements)
  let len = inner_text.len();
  let mut cuts: Vec<usize> = ops
    .iter()
    .flat_map(|o| [(o.start as usize).min(len), (o.end as usize).min(len)])
    .collect();
  cuts.sort();
  cuts.dedup();
  let chunk_of = |i: usize| -> Option<&InnerChunk> {
    chunks.iter().rev().find(|ch| ch.start <= i && i < ch.start + ch.text.len())
  };
  let ctx = |s: String| {
    format!(
      "{s}; result mappings {:?} sources {:?} names {:?}; inner text {inner_text:?}; output {out:?}",
      map.as_ref().map(|m| m.mappings().to_string()),
      map.as_ref().map(|m| m.sources().to_vec()),
      map.as_ref().map(|m| m.names().to_vec())
    )
  };
  // expected column of an inner position `i` that starts a piece at inner offset `p`
  // of chunk `ch`: (exact?, lo, hi)
  let expected_col = |ch: &InnerChunk, p: usize| -> (bool, u32, u32) {
    let At::Map { content, line, col, .. } = &ch.at else {
      return (true, 0, 0);
    };
    let d = p - ch.start;
    if d == 0 {
      return (true, *col, *col);
    }
    let prefix = &ch.text[..d];
    let content_line: Option<String> = content
      .as_ref()
      .and_then(|c| lines_of(c).get((*line as usize).wrapping_sub(1)).map(|s| s.to_string()));
    match content_line {
      None => (true, *col, *col),
      Some(cl) => {
        let at_col = cl.get(*col as usize..).unwrap_or("");
        if at_col.starts_with(prefix) {
          // identity-like: every piece of the prefix matches
          (true, col + d as u32, col + d as u32)
        } else if !prefix.bytes().any(|b| cl.as_bytes().contains(&b)) {
          // disjoint alphabets: no non-empty piece can match
          (true, *col, *col)
        } else {
          (false, *col, col + d as u32)
        }
      }
    }
  };
  let mut cut_in_mapped_chunk = false;
  let mut named_or_multi = false;
  let mut consumed = 0usize; // running end of replaced region, in sorted op order
  let order = crate::model::splice::order(ops);
  let mut checkable_ops = vec![false; ops.len()];
  for &j in &order {
    let s = (ops[j].start as usize).min(len);
    checkable_ops[j] = s >= consumed;
    consumed = consumed.max((ops[j].end as usize).min(len));
  }
  for (oi, f) in plan.iter().enumerate() {
    let (gl, gc) = positions[oi];
    let g = got.as_ref().map_or(At::Un, |r| r.lookup(gl, gc));
    match f {
      From::Inner(i) => {
        let Some(ch) = chunk_of(*i) else { continue };
        obs.count("replace_surviving_chars_checked", 1);
        let p = cuts.iter().copied().filter(|c| *c <= *i && *c > ch.start).max().unwrap_or(ch.start);
        match (&ch.at, &g) {
          (At::Un, At::Un) => {}
          (At::Map { file, line, name, .. }, At::Map { file: f2, line: l2, col: c2, name: n2, .. }) => {
            let (exact, lo, hi) = expected_col(ch, p);
            if p > ch.start {
              cut_in_mapped_chunk = true;
            }
            if name.is_some() {
              named_or_multi = true;
            }
            if !exact {
              obs.count("replace_partial_match_positions(bounds_only)", 1);
            }
            if f2 != file || l2 != line || n2 != name || *c2 < lo || *c2 > hi {
              obs.fail(
                if f2 != file || l2 != line { "replace_surviving_file_line" } else if n2 != name { "replace_surviving_name" } else { "replace_surviving_column" },
                ctx(format!("surviving inner byte {i} (output {gl}:{gc}): inner chunk {:?} at offset {} says {:?}, expected column in [{lo},{hi}], map() says {:?}", ch.text, ch.start, ch.at.without_content(), g.without_content())),
              );
              return false;
            }
          }
          _ => {
            obs.fail("replace_surviving_mappedness", ctx(format!("surviving inner byte {i} (output {gl}:{gc}): inner says {:?}, map() says {:?}", ch.at.without_content(), g.without_content())));
            return false;
          }
        }
      }
      From::Repl { op, k } => {
        let o = &ops[*op];
        if !checkable_ops[*op] {
          obs.count("replacement_inside_replaced_region(dont_care)", 1);
          continue;
        }
        let s = (o.start as usize).min(len);
        let ch = chunk_of(s);
        obs.count("replace_content_chars_checked", 1);
        match ch.map(|c| (&c.at, c)) {
          None | Some((At::Un, _)) => {
            if g != At::Un {
              obs.fail("replace_content_mapped_in_generated", ctx(format!("replacement {op} content byte {k} (output {gl}:{gc}) is spliced into generated text but map() says {:?}", g.without_content())));
              return false;
            }
          }
          Some((At::Map { file, line, name, .. }, ch)) => {
            let (exact, lo, hi) = expected_col(ch, s);
            if !exact {
              obs.count("replace_partial_match_positions(bounds_only)", 1);
            }
            let first_line_first_char = *k == 0;
            match &g {
              At::Map { file: f2, line: l2, col: c2, name: n2, .. } => {
                if f2 != file || l2 != line || *c2 < lo || *c2 > hi {
                  obs.fail("replace_content_location", ctx(format!("replacement {op} content byte {k} (output {gl}:{gc}) spliced into chunk {:?} ({:?}): expected {file}:{line} column in [{lo},{hi}], map() says {:?}", ch.text, ch.at.without_content(), g.without_content())));
                  return false;
                }
                if first_line_first_char {
                  let exp_name = o.name.clone().or(name.clone());
                  if exp_name.is_some() {
                    named_or_multi = true;
                  }
                  if *n2 != exp_name {
                    obs.fail("replace_content_name", ctx(format!("replacement {op} (name {:?}) spliced into chunk {:?} with name {:?}: expected name {:?}, map() says {:?}", o.name, ch.text, name, exp_name, n2)));
                    return false;
                  }
                }
              }
              At::Un => {
                obs.fail("replace_content_unmapped", ctx(format!("replacement {op} content byte {k} (output {gl}:{gc}) spliced into mapped chunk {:?} ({:?}) but map() says unmapped", ch.text, ch.at.without_content())));
                return false;
              }
            }
          }
        }
      }
    }
  }
  cut_in_mapped_chunk && named_or_multi
}

fn check(case: &Value, obs: &mut Obs) {
  let spec = super::spec_of(case);
  let interesting = match &spec {
    Spec::Concat { children, .. } => {
      obs.class("root:Concat");
      check_concat(children, &spec, case, obs)
    }
    Spec::Replace { inner, ops } => {
      obs.class("root:Replace");
      check_replace(inner, ops, &spec, case, obs)
    }
    _ => {
      // shrinking may promote a child to the root: nothing to compare
      obs.class("root:other");
      false
    }
  };
  spec.walk(&mut |s| obs.class(s.kind()));
  if interesting {
    obs.nontrivial();
  }
}
