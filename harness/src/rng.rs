//! Small deterministic PRNG (splitmix64 seeding + xoshiro256**), no dependencies.

#[derive(Clone, Debug)]
pub struct Rng {
  s: [u64; 4],
}

fn splitmix(x: &mut u64) -> u64 {
  *x = x.wrapping_add(0x9E3779B97F4A7C15);
  let mut z = *x;
  z = (z ^ (z >> 30)).wrapping_mul(0xBF58476D1CE4E5B9);
  z = (z ^ (z >> 27)).wrapping_mul(0x94D049BB133111EB);
  z ^ (z >> 31)
}

impl Rng {
  pub fn new(seed: u64) -> Self {
    let mut x = seed;
    let s = [
      splitmix(&mut x),
      splitmix(&mut x),
      splitmix(&mut x),
      splitmix(&mut x),
    ];
    Rng { s }
  }

  /// Independent stream for (seed, a, b).
  pub fn derive(seed: u64, a: u64, b: u64) -> Self {
    let mut x = seed ^ 0xA5A5_5A5A_1234_5678;
    let k = splitmix(&mut x) ^ a.wrapping_mul(0x9E3779B97F4A7C15);
    let mut y = k;
    let k2 = splitmix(&mut y) ^ b.wrapping_mul(0xD1B54A32D192ED03);
    Rng::new(k2)
  }

  pub fn next_u64(&mut self) -> u64 {
    let r = self.s[1].wrapping_mul(5).rotate_left(7).wrapping_mul(9);
    let t = self.s[1] << 17;
    self.s[2] ^= self.s[0];
    self.s[3] ^= self.s[1];
    self.s[1] ^= self.s[2];
    self.s[0] ^= self.s[3];
    self.s[2] ^= t;
    self.s[3] = self.s[3].rotate_left(45);
    r
  }

  /// Uniform in 0..n (n > 0).
  pub fn below(&mut self, n: usize) -> usize {
    debug_assert!(n > 0);
    (self.next_u64() % (n as u64)) as usize
  }

  /// Uniform in lo..=hi.
  pub fn range(&mut self, lo: usize, hi: usize) -> usize {
    lo + self.below(hi - lo + 1)
  }

  /// True with probability num/den.
  pub fn chance(&mut self, num: usize, den: usize) -> bool {
    self.below(den) < num
  }

  pub fn pick<'a, T>(&mut self, items: &'a [T]) -> &'a T {
    &items[self.below(items.len())]
  }

  pub fn state(&self) -> [u64; 4] {
    self.s
  }
}

/// FNV-1a 64 bit, used for fingerprints of specs.
pub fn fnv(data: &[u8]) -> u64 {
  let mut h: u64 = 0xcbf29ce484222325;
  for b in data {
    h ^= *b as u64;
    h = h.wrapping_mul(0x100000001b3);
  }
  h
}
