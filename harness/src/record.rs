//! Recording of chunk streams at the client boundary.

use std::borrow::Cow;

use rspack_sources::{
  stream_chunks::StreamChunks, MapOptions, Mapping, Rope,
};
use serde::Serialize;

use crate::spec::{Orig, Seg};

#[derive(Clone, Debug, PartialEq, Eq, Serialize)]
pub enum Ev {
  Source {
    idx: u32,
    name: String,
    content: Option<String>,
  },
  Name {
    idx: u32,
    name: String,
  },
  Chunk {
    text: Option<String>,
    seg: Seg,
    /// bytes of the chunk were valid UTF-8
    utf8_ok: bool,
  },
}

#[derive(Clone, Debug, PartialEq, Eq, Serialize)]
pub struct Rec {
  pub events: Vec<Ev>,
  pub end: (u32, u32),
}

pub fn seg_of(m: &Mapping) -> Seg {
  Seg {
    gl: m.generated_line,
    gc: m.generated_column,
    orig: m.original.as_ref().map(|o| Orig {
      src: o.source_index,
      line: o.original_line,
      col: o.original_column,
      name: o.name_index,
    }),
  }
}

enum Raw<'a> {
  Source(u32, Cow<'a, str>, Option<Rope<'a>>),
  Name(u32, Cow<'a, str>),
  Chunk(Option<Rope<'a>>, Mapping),
}

/// Stream `src` and record everything. Every borrowed chunk, name and content
/// is kept as borrowed until the outermost `stream_chunks` call has returned
/// and is only read (copied) afterwards.
pub fn record<S: StreamChunks + ?Sized>(src: &S, options: &MapOptions) -> Rec {
  let raws: std::cell::RefCell<Vec<Raw>> = std::cell::RefCell::new(Vec::new());
  let info = src.stream_chunks(
    options,
    &mut |chunk, mapping| raws.borrow_mut().push(Raw::Chunk(chunk, mapping)),
    &mut |i, name, content| raws.borrow_mut().push(Raw::Source(i, name, content)),
    &mut |i, name| raws.borrow_mut().push(Raw::Name(i, name)),
  );
  let events = raws
    .into_inner()
    .into_iter()
    .map(|r| match r {
      Raw::Source(idx, name, content) => Ev::Source {
        idx,
        name: name.to_string(),
        content: content.map(|c| c.to_string()),
      },
      Raw::Name(idx, name) => Ev::Name {
        idx,
        name: name.to_string(),
      },
      Raw::Chunk(chunk, mapping) => {
        let (text, utf8_ok) = match chunk {
          Some(rope) => {
            let bytes = rope.to_bytes();
            let ok = std::str::from_utf8(&bytes).is_ok();
            (Some(String::from_utf8_lossy(&bytes).to_string()), ok)
          }
          None => (None, true),
        };
        Ev::Chunk {
          text,
          seg: seg_of(&mapping),
          utf8_ok,
        }
      }
    })
    .collect();
  Rec {
    events,
    end: (info.generated_line, info.generated_column),
  }
}

impl Rec {
  pub fn chunks(&self) -> impl Iterator<Item = (&Option<String>, &Seg)> {
    self.events.iter().filter_map(|e| match e {
      Ev::Chunk { text, seg, .. } => Some((text, seg)),
      _ => None,
    })
  }

  pub fn text(&self) -> String {
    self
      .chunks()
      .map(|(t, _)| t.as_deref().unwrap_or(""))
      .collect()
  }

  /// Final source table: index -> (name, content), by last announcement.
  pub fn sources(&self) -> Vec<Option<(String, Option<String>)>> {
    let mut v: Vec<Option<(String, Option<String>)>> = Vec::new();
    for e in &self.events {
      if let Ev::Source { idx, name, content } = e {
        let i = *idx as usize;
        if i < 100_000 {
          if v.len() <= i {
            v.resize(i + 1, None);
          }
          v[i] = Some((name.clone(), content.clone()));
        }
      }
    }
    v
  }

  pub fn names(&self) -> Vec<Option<String>> {
    let mut v: Vec<Option<String>> = Vec::new();
    for e in &self.events {
      if let Ev::Name { idx, name } = e {
        let i = *idx as usize;
        if i < 100_000 {
          if v.len() <= i {
            v.resize(i + 1, None);
          }
          v[i] = Some(name.clone());
        }
      }
    }
    v
  }

  pub fn mapped_chunks(&self) -> usize {
    self.chunks().filter(|(_, s)| s.orig.is_some()).count()
  }
}
