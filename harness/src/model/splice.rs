//! Reference model of ReplaceSource text (property C05), written from the
//! statement: replacements ordered by (start, end, enforce, insertion order);
//! copy unconsumed inner text up to start, emit content, consume up to end;
//! positions beyond the end are clamped.

use crate::spec::Op;

/// Indices of `ops` in application order (stable).
pub fn order(ops: &[Op]) -> Vec<usize> {
  let mut idx: Vec<usize> = (0..ops.len()).collect();
  // insertion sort: obviously stable
  for i in 1..idx.len() {
    let mut j = i;
    while j > 0 {
      let a = &ops[idx[j - 1]];
      let b = &ops[idx[j]];
      if (a.start, a.end, a.enforce) > (b.start, b.end, b.enforce) {
        idx.swap(j - 1, j);
        j -= 1;
      } else {
        break;
      }
    }
  }
  idx
}

/// Where an output element comes from.
#[derive(Clone, Debug, PartialEq, Eq)]
pub enum From {
  /// byte `i` of the inner text
  Inner(usize),
  /// byte `k` of the content of replacement `op` (index into `ops`)
  Repl { op: usize, k: usize },
}

/// The output as a sequence of provenance records.
pub fn splice_plan(inner_len: usize, ops: &[Op]) -> Vec<From> {
  let mut out = Vec::new();
  let mut pos = 0usize;
  for &i in &order(ops) {
    let op = &ops[i];
    let s = (op.start as usize).min(inner_len);
    if s > pos {
      out.extend((pos..s).map(From::Inner));
      pos = s;
    }
    out.extend((0..op.content.len()).map(|k| From::Repl { op: i, k }));
    let e = (op.end as usize).min(inner_len);
    pos = pos.max(e);
  }
  out.extend((pos..inner_len).map(From::Inner));
  out
}

pub fn splice_bytes(inner: &[u8], ops: &[Op]) -> Vec<u8> {
  splice_plan(inner.len(), ops)
    .into_iter()
    .map(|f| match f {
      From::Inner(i) => inner[i],
      From::Repl { op, k } => ops[op].content.as_bytes()[k],
    })
    .collect()
}

pub fn splice_text(inner: &str, ops: &[Op]) -> String {
  String::from_utf8_lossy(&splice_bytes(inner.as_bytes(), ops)).to_string()
}
