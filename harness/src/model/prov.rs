//! Byte provenance: where every output byte of a tree really comes from,
//! computed from the spec alone by the concat / splice models.

use crate::{
  model::splice::{splice_plan, From},
  spec::Spec,
};

#[derive(Clone, Debug, PartialEq, Eq)]
pub enum Origin {
  /// text of a raw leaf (or any leaf that is not an OriginalSource)
  Raw,
  /// content of a replacement
  Repl,
  /// byte of an OriginalSource text
  Orig {
    file: String,
    line: u32,
    col: u32,
    /// this byte starts a statement token (and the token is not a lone "\n")
    token_start: bool,
    /// the byte is the "\n" of an empty line (a lone "\n" token)
    lone_newline: bool,
  },
}

pub fn provenance(spec: &Spec) -> Vec<(u8, Origin)> {
  match spec {
    Spec::Original { text, name } => {
      let toks = crate::model::tokens::tokens(text);
      let mut starts = vec![false; text.len()];
      let mut lone = vec![false; text.len()];
      for (a, b) in toks {
        if &text[a..b] == "\n" {
          lone[a] = true;
        } else {
          starts[a] = true;
        }
      }
      let mut out = Vec::with_capacity(text.len());
      let (mut line, mut col) = (1u32, 0u32);
      for (i, b) in text.bytes().enumerate() {
        out.push((
          b,
          Origin::Orig {
            file: name.clone(),
            line,
            col,
            token_start: starts[i],
            lone_newline: lone[i],
          },
        ));
        if b == b'\n' {
          line += 1;
          col = 0;
        } else {
          col += 1;
        }
      }
      out
    }
    Spec::Concat { children, .. } => {
      children.iter().flat_map(provenance).collect()
    }
    Spec::Replace { inner, ops } => {
      let p = provenance(inner);
      splice_plan(p.len(), ops)
        .into_iter()
        .map(|f| match f {
          From::Inner(i) => p[i].clone(),
          From::Repl { op, k } => (ops[op].content.as_bytes()[k], Origin::Repl),
        })
        .collect()
    }
    Spec::Cached { inner } | Spec::Boxed { inner } => provenance(inner),
    other => other
      .model_text()
      .bytes()
      .map(|b| (b, Origin::Raw))
      .collect(),
  }
}
