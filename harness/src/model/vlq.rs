//! Reference implementation of the source-map v3 "mappings" format
//! (base64 VLQ), written from the format description, sharing no code with
//! the crate under test.

use crate::spec::{Orig, Seg};

const ALPHABET: &[u8; 64] =
  b"ABCDEFGHIJKLMNOPQRSTUVWXYZabcdefghijklmnopqrstuvwxyz0123456789+/";

pub fn b64_value(c: u8) -> Option<u8> {
  match c {
    b'A'..=b'Z' => Some(c - b'A'),
    b'a'..=b'z' => Some(c - b'a' + 26),
    b'0'..=b'9' => Some(c - b'0' + 52),
    b'+' => Some(62),
    b'/' => Some(63),
    _ => None,
  }
}

/// Append the VLQ of signed `value`; `pad` extra redundant continuation digits
/// (zero-valued high digits) are appended, which the format allows.
pub fn push_vlq(out: &mut String, value: i64, pad: usize) {
  let mut v: u64 = if value < 0 {
    (((-value) as u64) << 1) | 1
  } else {
    (value as u64) << 1
  };
  let mut digits: Vec<u8> = Vec::new();
  loop {
    digits.push((v & 31) as u8);
    v >>= 5;
    if v == 0 {
      break;
    }
  }
  for _ in 0..pad {
    digits.push(0);
  }
  let n = digits.len();
  for (i, d) in digits.into_iter().enumerate() {
    let d = if i + 1 < n { d | 32 } else { d };
    out.push(ALPHABET[d as usize] as char);
  }
}

/// Encode every segment as given (no dropping). Lines are 1-based; original
/// lines are 1-based in `Seg` and 0-based in the format.
pub fn encode(segs: &[Seg]) -> String {
  encode_with(segs, &mut |_| 0)
}

/// Like `encode`, `pad(field_counter)` gives the number of redundant
/// continuation digits for each emitted field.
pub fn encode_with(segs: &[Seg], pad: &mut dyn FnMut(usize) -> usize) -> String {
  let mut out = String::new();
  let mut line = 1u32;
  let mut col = 0i64;
  let mut src = 0i64;
  let mut ol = 0i64; // 0-based running value
  let mut oc = 0i64;
  let mut nm = 0i64;
  let mut first_on_line = true;
  let mut field = 0usize;
  for s in segs {
    while line < s.gl {
      out.push(';');
      line += 1;
      col = 0;
      first_on_line = true;
    }
    if !first_on_line {
      out.push(',');
    }
    first_on_line = false;
    push_vlq(&mut out, s.gc as i64 - col, pad(field));
    field += 1;
    col = s.gc as i64;
    if let Some(o) = &s.orig {
      push_vlq(&mut out, o.src as i64 - src, pad(field));
      field += 1;
      src = o.src as i64;
      let l0 = o.line as i64 - 1;
      push_vlq(&mut out, l0 - ol, pad(field));
      field += 1;
      ol = l0;
      push_vlq(&mut out, o.col as i64 - oc, pad(field));
      field += 1;
      oc = o.col as i64;
      if let Some(n) = o.name {
        push_vlq(&mut out, n as i64 - nm, pad(field));
        field += 1;
        nm = n as i64;
      }
    }
  }
  out
}

#[derive(Debug, Clone, PartialEq, Eq)]
pub enum DecodeError {
  BadChar(usize),
  BadFieldCount(usize),
  Unterminated,
  Negative,
  TooLarge,
}

/// Strict decoder of well-formed strings: segments of 1, 4 or 5 fields,
/// empty segments (`,,` or `;` directly after `,`) are skipped as the format
/// allows. Running values must stay within u32.
pub fn decode(s: &str) -> Result<Vec<Seg>, DecodeError> {
  let bytes = s.as_bytes();
  let mut out = Vec::new();
  let mut line = 1u32;
  let mut col = 0i64;
  let mut src = 0i64;
  let mut ol = 0i64;
  let mut oc = 0i64;
  let mut nm = 0i64;
  let mut fields: Vec<i64> = Vec::new();
  let mut i = 0;
  let mut value: i128 = 0;
  let mut shift = 0u32;
  let mut in_value = false;
  let flush = |fields: &mut Vec<i64>,
                   out: &mut Vec<Seg>,
                   line: u32,
                   col: &mut i64,
                   src: &mut i64,
                   ol: &mut i64,
                   oc: &mut i64,
                   nm: &mut i64,
                   pos: usize|
   -> Result<(), DecodeError> {
    match fields.len() {
      0 => {}
      1 | 4 | 5 => {
        *col += fields[0];
        let mut orig = None;
        if fields.len() >= 4 {
          *src += fields[1];
          *ol += fields[2];
          *oc += fields[3];
          let mut name = None;
          if fields.len() == 5 {
            *nm += fields[4];
            name = Some(*nm);
          }
          for v in [*src, *ol, *oc, name.unwrap_or(0)] {
            if v < 0 {
              return Err(DecodeError::Negative);
            }
            if v >= u32::MAX as i64 {
              return Err(DecodeError::TooLarge);
            }
          }
          orig = Some(Orig {
            src: *src as u32,
            line: *ol as u32 + 1,
            col: *oc as u32,
            name: name.map(|n| n as u32),
          });
        }
        if *col < 0 {
          return Err(DecodeError::Negative);
        }
        if *col > u32::MAX as i64 {
          return Err(DecodeError::TooLarge);
        }
        out.push(Seg {
          gl: line,
          gc: *col as u32,
          orig,
        });
      }
      _ => return Err(DecodeError::BadFieldCount(pos)),
    }
    fields.clear();
    Ok(())
  };
  while i < bytes.len() {
    let c = bytes[i];
    match c {
      b',' | b';' => {
        if in_value {
          return Err(DecodeError::Unterminated);
        }
        flush(
          &mut fields,
          &mut out,
          line,
          &mut col,
          &mut src,
          &mut ol,
          &mut oc,
          &mut nm,
          i,
        )?;
        if c == b';' {
          line += 1;
          col = 0;
        }
      }
      _ => {
        let d = b64_value(c).ok_or(DecodeError::BadChar(i))?;
        if shift < 100 {
          value |= ((d & 31) as i128) << shift;
        }
        shift += 5;
        in_value = true;
        if d & 32 == 0 {
          let neg = value & 1 == 1;
          let mag = value >> 1;
          if mag > (1i128 << 40) {
            return Err(DecodeError::TooLarge);
          }
          fields.push(if neg { -(mag as i64) } else { mag as i64 });
          value = 0;
          shift = 0;
          in_value = false;
        }
      }
    }
    i += 1;
  }
  if in_value {
    return Err(DecodeError::Unterminated);
  }
  flush(
    &mut fields,
    &mut out,
    line,
    &mut col,
    &mut src,
    &mut ol,
    &mut oc,
    &mut nm,
    bytes.len(),
  )?;
  Ok(out)
}

/// Only base64 digits, ',' and ';'.
pub fn is_wellformed_charset(s: &str) -> bool {
  s.bytes()
    .all(|c| c == b',' || c == b';' || b64_value(c).is_some())
}

#[cfg(test)]
mod tests {
  use super::*;

  #[test]
  fn known_strings() {
    let segs = decode("AAAA,eAAe,SAAS;AACA").unwrap();
    assert_eq!(segs.len(), 4);
    assert_eq!(segs[1].gc, 15);
    assert_eq!(segs[1].orig.as_ref().unwrap().col, 15);
    assert_eq!(segs[3].gl, 2);
    assert_eq!(segs[3].orig.as_ref().unwrap().line, 2);
    assert_eq!(encode(&segs), "AAAA,eAAe,SAAS;AACA");
    let mut s = String::new();
    push_vlq(&mut s, 16, 0);
    assert_eq!(s, "gB");
    let mut s = String::new();
    push_vlq(&mut s, -1, 0);
    assert_eq!(s, "D");
    let mut s = String::new();
    push_vlq(&mut s, 1, 2);
    assert_eq!(s, "iggA".replace("iggA", "igA"));
    // redundant digits decode to the same value
    let mut t = String::new();
    push_vlq(&mut t, 5, 3);
    t.push_str("AAA");
    let d = decode(&t).unwrap();
    assert_eq!(d[0].gc, 5);
  }
}
