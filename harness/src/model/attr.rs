//! Attribution functions: position of the generated text -> original
//! location, derived (a) from a source map by the lookup rule of the format
//! and (b) from a recorded chunk stream. Most map properties are equality of
//! two such functions at every character position.

use rspack_sources::SourceMap;

use crate::{
  model::vlq,
  record::Rec,
  spec::Seg,
};

#[derive(Clone, Debug, PartialEq, Eq, Hash, serde::Serialize)]
pub enum At {
  Un,
  Map {
    file: String,
    content: Option<String>,
    line: u32,
    col: u32,
    name: Option<String>,
  },
}

impl At {
  /// (file, line) granularity
  pub fn coarse(&self) -> Option<(String, u32)> {
    match self {
      At::Un => None,
      At::Map { file, line, .. } => Some((file.clone(), *line)),
    }
  }
  pub fn without_content(&self) -> At {
    match self {
      At::Un => At::Un,
      At::Map {
        file,
        line,
        col,
        name,
        ..
      } => At::Map {
        file: file.clone(),
        content: None,
        line: *line,
        col: *col,
        name: name.clone(),
      },
    }
  }
}

/// Lines of `text`, each including its trailing '\n' if present.
pub fn lines_of(text: &str) -> Vec<&str> {
  let mut v = Vec::new();
  let mut rest = text;
  while !rest.is_empty() {
    match rest.find('\n') {
      Some(i) => {
        v.push(&rest[..=i]);
        rest = &rest[i + 1..];
      }
      None => {
        v.push(rest);
        rest = "";
      }
    }
  }
  v
}

/// Position just after the last character: (line 1-based, column).
pub fn end_position(text: &str) -> (u32, u32) {
  let mut line = 1u32;
  let mut col = 0u32;
  for b in text.bytes() {
    if b == b'\n' {
      line += 1;
      col = 0;
    } else {
      col += 1;
    }
  }
  (line, col)
}

pub fn apply_source_root(root: Option<&str>, source: &str) -> String {
  match root {
    None => source.to_string(),
    Some("") => source.to_string(),
    Some(r) if r.ends_with('/') => format!("{r}{source}"),
    Some(r) => format!("{r}/{source}"),
  }
}

/// A decoded map in resolved form.
#[derive(Clone, Debug)]
pub struct Resolved {
  /// segments grouped per generated line (index 0 = line 1), in string order
  pub lines: Vec<Vec<Seg>>,
  pub sources: Vec<String>,
  pub contents: Vec<Option<String>>,
  pub names: Vec<String>,
}

impl Resolved {
  pub fn from_map(map: &SourceMap) -> Result<Resolved, String> {
    let segs = vlq::decode(map.mappings())
      .map_err(|e| format!("reference decoder rejects mappings {:?}: {:?}", map.mappings(), e))?;
    Ok(Self::from_parts(
      &segs,
      map
        .sources()
        .iter()
        .map(|s| apply_source_root(map.source_root(), s))
        .collect(),
      (0..map.sources().len())
        .map(|i| map.get_source_content(i).map(|s| s.to_string()))
        .collect(),
      map.names().to_vec(),
    ))
  }

  pub fn from_parts(
    segs: &[Seg],
    sources: Vec<String>,
    contents: Vec<Option<String>>,
    names: Vec<String>,
  ) -> Resolved {
    let mut lines: Vec<Vec<Seg>> = Vec::new();
    for s in segs {
      let i = (s.gl.max(1) - 1) as usize;
      if i > 1_000_000 {
        continue;
      }
      if lines.len() <= i {
        lines.resize(i + 1, Vec::new());
      }
      lines[i].push(s.clone());
    }
    Resolved {
      lines,
      sources,
      contents,
      names,
    }
  }

  pub fn resolve(&self, seg: &Seg) -> At {
    match &seg.orig {
      None => At::Un,
      Some(o) => At::Map {
        file: self
          .sources
          .get(o.src as usize)
          .cloned()
          .unwrap_or_else(|| format!("<source index {} out of table>", o.src)),
        content: self.contents.get(o.src as usize).cloned().flatten(),
        line: o.line,
        col: o.col,
        name: o.name.map(|n| {
          self
            .names
            .get(n as usize)
            .cloned()
            .unwrap_or_else(|| format!("<name index {n} out of table>"))
        }),
      },
    }
  }

  /// Greatest segment at or before (line, col) on that line.
  pub fn lookup(&self, line: u32, col: u32) -> At {
    let Some(segs) = self.lines.get((line - 1) as usize) else {
      return At::Un;
    };
    let mut best: Option<&Seg> = None;
    for s in segs {
      if s.gc <= col && best.map_or(true, |b| s.gc >= b.gc) {
        best = Some(s);
      }
    }
    best.map_or(At::Un, |s| self.resolve(s))
  }

  /// columns=false rule: the line's first mapped segment, (file, line).
  pub fn lookup_line(&self, line: u32) -> Option<(String, u32)> {
    let segs = self.lines.get((line - 1) as usize)?;
    segs
      .iter()
      .find(|s| s.orig.is_some())
      .and_then(|s| self.resolve(s).coarse())
  }

  pub fn mapped_segments(&self) -> usize {
    self
      .lines
      .iter()
      .flatten()
      .filter(|s| s.orig.is_some())
      .count()
  }
}

/// Attribution of every character (ASCII: byte) of `text` through a map:
/// result[line-1][col].
pub fn attr_of_map(text: &str, map: Option<&SourceMap>) -> Result<Vec<Vec<At>>, String> {
  let resolved = match map {
    Some(m) => Some(Resolved::from_map(m)?),
    None => None,
  };
  Ok(attr_of_resolved(text, resolved.as_ref()))
}

pub fn attr_of_resolved(text: &str, resolved: Option<&Resolved>) -> Vec<Vec<At>> {
  lines_of(text)
    .iter()
    .enumerate()
    .map(|(li, l)| {
      (0..l.len())
        .map(|c| match resolved {
          Some(r) => r.lookup(li as u32 + 1, c as u32),
          None => At::Un,
        })
        .collect()
    })
    .collect()
}

pub fn attr_lines_of_map(text: &str, map: Option<&SourceMap>) -> Result<Vec<Option<(String, u32)>>, String> {
  let resolved = match map {
    Some(m) => Some(Resolved::from_map(m)?),
    None => None,
  };
  Ok(
    (0..lines_of(text).len())
      .map(|li| resolved.as_ref().and_then(|r| r.lookup_line(li as u32 + 1)))
      .collect(),
  )
}

/// Attribution of every character through a recorded stream *with texts*:
/// each chunk attributes the characters it carries (on its first line; a
/// character after a line break inside a chunk is attributed as unmapped, as
/// a map lookup would). Positions come from scanning the delivered text, not
/// from the reported positions (those are property C02).
pub fn attr_of_stream(rec: &Rec) -> Vec<Vec<At>> {
  let sources = rec.sources();
  let names = rec.names();
  let resolved = Resolved {
    lines: vec![],
    sources: sources
      .iter()
      .enumerate()
      .map(|(i, s)| {
        s.as_ref()
          .map(|s| s.0.clone())
          .unwrap_or_else(|| format!("<source index {i} never announced>"))
      })
      .collect(),
    contents: sources
      .iter()
      .map(|s| s.as_ref().and_then(|s| s.1.clone()))
      .collect(),
    names: names
      .iter()
      .enumerate()
      .map(|(i, n)| {
        n.clone()
          .unwrap_or_else(|| format!("<name index {i} never announced>"))
      })
      .collect(),
  };
  let mut out: Vec<Vec<At>> = vec![Vec::new()];
  for (text, seg) in rec.chunks() {
    let Some(text) = text else { continue };
    let at = resolved.resolve(seg);
    let mut first_line = true;
    for b in text.bytes() {
      out
        .last_mut()
        .unwrap()
        .push(if first_line { at.clone() } else { At::Un });
      if b == b'\n' {
        out.push(Vec::new());
        first_line = false;
      }
    }
  }
  if out.last().map_or(false, |l| l.is_empty()) {
    out.pop();
  }
  out
}

/// columns=false view of a stream: per output line the (file, line) of the
/// first mapped chunk starting on it.
pub fn attr_lines_of_stream(rec: &Rec) -> Vec<Option<(String, u32)>> {
  let full = attr_of_stream_first_mapped(rec);
  full
}

fn attr_of_stream_first_mapped(rec: &Rec) -> Vec<Option<(String, u32)>> {
  let at = attr_of_stream(rec);
  at.iter()
    .map(|l| l.iter().find_map(|a| a.coarse()))
    .collect()
}

/// First difference between two attribution tables, as text.
pub fn first_diff(a: &[Vec<At>], b: &[Vec<At>], ignore_content: bool) -> Option<String> {
  if a.len() != b.len() {
    return Some(format!("line counts differ: {} vs {}", a.len(), b.len()));
  }
  for (li, (la, lb)) in a.iter().zip(b).enumerate() {
    if la.len() != lb.len() {
      return Some(format!(
        "line {} lengths differ: {} vs {}",
        li + 1,
        la.len(),
        lb.len()
      ));
    }
    for (c, (x, y)) in la.iter().zip(lb).enumerate() {
      let same = if ignore_content {
        x.without_content() == y.without_content()
      } else {
        x == y
      };
      if !same {
        return Some(format!(
          "at {}:{}: {:?} vs {:?}",
          li + 1,
          c,
          x.without_content(),
          y.without_content()
        ));
      }
    }
  }
  None
}
