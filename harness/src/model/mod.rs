pub mod attr;
pub mod splice;
pub mod vlq;
