pub mod attr;
pub mod prov;
pub mod tokens;
pub mod splice;
pub mod vlq;
