//! Statement tokenizer written from the documented rule
//! `/[^\n;{}]+[;{} \r\t]*\n?|[;{} \r\t]+\n?|\n/g` (greedy, leftmost alternative first).

/// Byte ranges of the tokens of `text` (ASCII or not; the classes are ASCII).
pub fn tokens(text: &str) -> Vec<(usize, usize)> {
  let b = text.as_bytes();
  let is_stop = |c: u8| c == b'\n' || c == b';' || c == b'{' || c == b'}';
  let is_tail = |c: u8| matches!(c, b';' | b'{' | b'}' | b' ' | b'\r' | b'\t');
  let mut out = Vec::new();
  let mut i = 0;
  while i < b.len() {
    let start = i;
    if !is_stop(b[i]) {
      // [^\n;{}]+
      while i < b.len() && !is_stop(b[i]) {
        i += 1;
      }
      // [;{} \r\t]*
      while i < b.len() && is_tail(b[i]) {
        i += 1;
      }
      // \n?
      if i < b.len() && b[i] == b'\n' {
        i += 1;
      }
    } else if b[i] != b'\n' {
      // [;{} \r\t]+
      while i < b.len() && is_tail(b[i]) {
        i += 1;
      }
      if i < b.len() && b[i] == b'\n' {
        i += 1;
      }
    } else {
      i += 1;
    }
    out.push((start, i));
  }
  out
}

#[cfg(test)]
mod tests {
  use super::tokens;
  fn toks(s: &str) -> Vec<&str> {
    tokens(s).into_iter().map(|(a, b)| &s[a..b]).collect()
  }
  #[test]
  fn documented_examples() {
    assert_eq!(
      toks("if (hello()) { world(); hi(); } done();\n"),
      vec!["if (hello()) { ", "world(); ", "hi(); } ", "done();\n"]
    );
    assert_eq!(toks("\n\n a;\n"), vec!["\n", "\n", " a;\n"]);
    assert_eq!(toks(";;  x"), vec![";;  ", "x"]);
    assert_eq!(toks("a \t;b"), vec!["a \t;", "b"]);
  }
}
