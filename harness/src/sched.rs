//! Token-passing deterministic scheduler for real OS threads (property C18).
//!
//! Managed threads run one at a time and hand over only at schedule points:
//! the guarded hooks inside the library (`verif::sched_point`, `lock_wait`)
//! and the methods of `SchedSource`, a user-defined child source. A thread
//! that is about to take a lock held by a parked thread is not scheduled (its
//! probe is re-evaluated by the scheduler), so the scheduler never wedges
//! itself; "every unfinished thread blocked" is a logical deadlock verdict.
//! Schedules are enumerated by stateless DFS over the choice points (with a
//! pre-emption bound) or drawn at random.

use std::{
  cell::Cell,
  sync::{Arc, Condvar, Mutex, OnceLock},
  time::{Duration, Instant},
};

use crate::rng::Rng;

#[derive(Clone, Copy, PartialEq, Eq, Debug)]
enum St {
  NotStarted,
  /// parked at a schedule point, may run
  Ready,
  /// parked before a lock that was held by someone else
  Blocked,
  Running,
  Done,
}

struct Probe(*const (dyn Fn() -> bool + 'static));
// SAFETY: a probe is only called while its owner is parked inside
// `lock_wait` (so the closure and what it borrows are alive), and it only
// performs non-blocking reads of `Sync` data.
unsafe impl Send for Probe {}

pub struct Outcome {
  pub trace: Vec<(usize, &'static str)>,
  /// (chosen alternative, number of alternatives) per decision point
  pub choices: Vec<(usize, usize)>,
  pub deadlock: bool,
  pub preemptions: usize,
}

struct State {
  current: Option<usize>,
  status: Vec<St>,
  probes: Vec<Option<Probe>>,
  trace: Vec<(usize, &'static str)>,
  choices: Vec<(usize, usize)>,
  prefix: Vec<usize>,
  rng: Option<Rng>,
  preemptions: usize,
  max_preempt: usize,
  deadlock: bool,
  registered: usize,
}

pub struct Sched {
  st: Mutex<State>,
  cv: Condvar,
}

thread_local! {
  static TID: Cell<Option<usize>> = const { Cell::new(None) };
}

static ACTIVE: Mutex<Option<Arc<Sched>>> = Mutex::new(None);
static HOOKS: OnceLock<()> = OnceLock::new();

fn active() -> Option<(Arc<Sched>, usize)> {
  let me = TID.with(|t| t.get())?;
  let s = ACTIVE.lock().unwrap().clone()?;
  Some((s, me))
}

/// Install the library hooks (once per process).
pub fn install_hooks() {
  let _ = HOOKS.get_or_init(|| ());
  rspack_sources::verif::set_scheduler(Some((
    Arc::new(|site| point(site)),
    Arc::new(|site, probe| lock_wait(site, probe)),
  )));
}

impl State {
  fn runnable(&self) -> Vec<usize> {
    let mut v = Vec::new();
    for (i, s) in self.status.iter().enumerate() {
      match s {
        St::Ready => v.push(i),
        St::Blocked => {
          let still = match &self.probes[i] {
            // SAFETY: see `Probe`
            Some(p) => unsafe { (*p.0)() },
            None => false,
          };
          if !still {
            v.push(i);
          }
        }
        _ => {}
      }
    }
    v
  }

  /// Decide who runs next; `me` is the thread giving up the token (None for
  /// the controller or a finished thread).
  fn pick(&mut self, me: Option<usize>) -> Option<usize> {
    let mut cands = self.runnable();
    if cands.is_empty() {
      if self.status.iter().any(|s| matches!(s, St::Blocked | St::Ready)) {
        self.deadlock = true;
      }
      return None;
    }
    if let Some(m) = me {
      if cands.contains(&m) && self.preemptions >= self.max_preempt {
        cands = vec![m];
      }
    }
    let idx = if cands.len() == 1 {
      0
    } else {
      let d = self.choices.len();
      let c = if d < self.prefix.len() {
        self.prefix[d].min(cands.len() - 1)
      } else if let Some(r) = self.rng.as_mut() {
        r.below(cands.len())
      } else {
        0
      };
      self.choices.push((c, cands.len()));
      c
    };
    let next = cands[idx];
    if let Some(m) = me {
      if next != m && cands.contains(&m) {
        self.preemptions += 1;
      }
    }
    Some(next)
  }
}

impl Sched {
  fn hand_over(&self, me: usize, new_status: St, probe: Option<Probe>) {
    let mut st = self.st.lock().unwrap();
    st.status[me] = new_status;
    st.probes[me] = probe;
    let next = st.pick(Some(me));
    st.current = next;
    if next.is_none() {
      // deadlock: wake the controller, stay parked forever (the controller
      // ends the process)
      self.cv.notify_all();
      loop {
        st = self.cv.wait(st).unwrap();
      }
    }
    self.cv.notify_all();
    while st.current != Some(me) {
      st = self.cv.wait(st).unwrap();
    }
    st.status[me] = St::Running;
    st.probes[me] = None;
  }
}

/// A schedule point of a managed thread (no-op otherwise).
pub fn point(site: &'static str) {
  let Some((s, me)) = active() else { return };
  s.st.lock().unwrap().trace.push((me, site));
  s.hand_over(me, St::Ready, None);
}

/// Before a call that may block on a lock.
pub fn lock_wait(site: &'static str, would_block: &dyn Fn() -> bool) {
  let Some((s, me)) = active() else { return };
  s.st.lock().unwrap().trace.push((me, site));
  // a decision point like any other first
  s.hand_over(me, St::Ready, None);
  while would_block() {
    // SAFETY: lifetime erasure only; see `Probe`
    let p: *const (dyn Fn() -> bool + 'static) =
      unsafe { std::mem::transmute(would_block as *const (dyn Fn() -> bool + '_)) };
    s.hand_over(me, St::Blocked, Some(Probe(p)));
  }
}

pub struct Strategy {
  pub prefix: Vec<usize>,
  pub random: Option<u64>,
  pub max_preempt: usize,
}

pub enum RunError {
  Deadlock(Outcome),
  Timeout,
}

/// Run the thread bodies under one schedule.
pub fn run<T: Send + 'static>(
  bodies: Vec<Box<dyn FnOnce() -> T + Send>>,
  strategy: &Strategy,
) -> Result<(Vec<std::thread::Result<T>>, Outcome), RunError> {
  install_hooks();
  let n = bodies.len();
  let sched = Arc::new(Sched {
    st: Mutex::new(State {
      current: None,
      status: vec![St::NotStarted; n],
      probes: (0..n).map(|_| None).collect(),
      trace: Vec::new(),
      choices: Vec::new(),
      prefix: strategy.prefix.clone(),
      rng: strategy.random.map(Rng::new),
      preemptions: 0,
      max_preempt: strategy.max_preempt,
      deadlock: false,
      registered: 0,
    }),
    cv: Condvar::new(),
  });
  *ACTIVE.lock().unwrap() = Some(sched.clone());
  let mut handles = Vec::new();
  for (tid, body) in bodies.into_iter().enumerate() {
    let s = sched.clone();
    handles.push(std::thread::spawn(move || {
      TID.with(|t| t.set(Some(tid)));
      {
        // register and wait for the first turn
        let mut st = s.st.lock().unwrap();
        st.status[tid] = St::Ready;
        st.registered += 1;
        s.cv.notify_all();
        while st.current != Some(tid) {
          st = s.cv.wait(st).unwrap();
        }
        st.status[tid] = St::Running;
      }
      let r = std::panic::catch_unwind(std::panic::AssertUnwindSafe(body));
      {
        let mut st = s.st.lock().unwrap();
        st.status[tid] = St::Done;
        let next = st.pick(None);
        st.current = next;
        s.cv.notify_all();
      }
      TID.with(|t| t.set(None));
      r
    }));
  }
  // controller: wait until all registered, then give the first turn
  let deadline = Instant::now() + Duration::from_secs(60);
  {
    let mut st = sched.st.lock().unwrap();
    while st.registered < n {
      st = sched.cv.wait_timeout(st, Duration::from_millis(200)).unwrap().0;
      if Instant::now() > deadline {
        return Err(RunError::Timeout);
      }
    }
    let first = st.pick(None);
    st.current = first;
    sched.cv.notify_all();
    // wait for completion or deadlock
    loop {
      if st.status.iter().all(|s| *s == St::Done) {
        break;
      }
      if st.deadlock {
        let o = Outcome {
          trace: st.trace.clone(),
          choices: st.choices.clone(),
          deadlock: true,
          preemptions: st.preemptions,
        };
        return Err(RunError::Deadlock(o));
      }
      st = sched.cv.wait_timeout(st, Duration::from_millis(200)).unwrap().0;
      if Instant::now() > deadline {
        return Err(RunError::Timeout);
      }
    }
  }
  let results: Vec<std::thread::Result<T>> =
    handles.into_iter().map(|h| h.join().unwrap()).collect();
  *ACTIVE.lock().unwrap() = None;
  let st = sched.st.lock().unwrap();
  Ok((
    results,
    Outcome {
      trace: st.trace.clone(),
      choices: st.choices.clone(),
      deadlock: false,
      preemptions: st.preemptions,
    },
  ))
}

/// Next DFS prefix after a run with `choices`, or None when exhausted.
pub fn next_prefix(choices: &[(usize, usize)]) -> Option<Vec<usize>> {
  let mut c: Vec<(usize, usize)> = choices.to_vec();
  while let Some((chosen, n)) = c.pop() {
    if chosen + 1 < n {
      let mut p: Vec<usize> = c.iter().map(|x| x.0).collect();
      p.push(chosen + 1);
      return Some(p);
    }
  }
  None
}

pub fn trace_hash(trace: &[(usize, &'static str)]) -> u64 {
  let mut s = String::new();
  for (t, site) in trace {
    s.push_str(&format!("{t}:{site};"));
  }
  crate::rng::fnv(s.as_bytes())
}
