//! What a monitor observed while checking one case.

use std::collections::{BTreeMap, BTreeSet};

#[derive(Clone, Debug, Default)]
pub struct Obs {
  pub violations: Vec<(String, String)>,
  pub counters: BTreeMap<String, u64>,
  pub classes: BTreeSet<String>,
  pub nontrivial: bool,
  /// a sub-check could not be evaluated (not a verdict)
  pub inconclusive: Vec<String>,
  /// free-text remarks (e.g. messages of counted panics)
  pub notes: Vec<String>,
  /// key/value log merged across worker processes; the merged log must be a
  /// function (same key => same value)
  pub log: Vec<(String, String)>,
}

impl Obs {
  pub fn new() -> Obs {
    Obs::default()
  }
  pub fn fail(&mut self, clause: &str, detail: impl Into<String>) {
    let mut d: String = detail.into();
    if d.len() > 2000 {
      let mut cut = 2000;
      while !d.is_char_boundary(cut) {
        cut -= 1;
      }
      d.truncate(cut);
      d.push_str("…");
    }
    self.violations.push((clause.to_string(), d));
  }
  pub fn count(&mut self, key: &str, n: u64) {
    *self.counters.entry(key.to_string()).or_insert(0) += n;
  }
  pub fn class(&mut self, name: &str) {
    self.classes.insert(name.to_string());
  }
  pub fn nontrivial(&mut self) {
    self.nontrivial = true;
  }
  pub fn check(&mut self, cond: bool, clause: &str, detail: impl FnOnce() -> String) -> bool {
    if !cond {
      self.fail(clause, detail());
    }
    cond
  }
  pub fn failed(&self) -> bool {
    !self.violations.is_empty()
  }
  pub fn has_clause(&self, clause: &str) -> bool {
    self.violations.iter().any(|(c, _)| c == clause)
  }
}
