//! Worker process: runs a shard of cases of one property and writes a JSON
//! summary. Also the replay entry point.

use std::{
  cell::RefCell,
  collections::{BTreeMap, BTreeSet, HashMap},
  panic::{catch_unwind, AssertUnwindSafe},
  time::Instant,
};

use serde_json::{json, Value};

use crate::{
  obs::Obs,
  props::{self, PanicPolicy, PropDef, Tier},
  rng::Rng,
  shrink,
  spec::Spec,
};

thread_local! {
  static LAST_PANIC: RefCell<Option<(String, String)>> = const { RefCell::new(None) };
}

/// Panic hook: remember the message and who panicked (library or harness),
/// print nothing.
pub fn install_panic_hook() {
  std::panic::set_hook(Box::new(|info| {
    let msg = if let Some(s) = info.payload().downcast_ref::<&str>() {
      s.to_string()
    } else if let Some(s) = info.payload().downcast_ref::<String>() {
      s.clone()
    } else {
      "<non-string panic>".to_string()
    };
    let loc = info
      .location()
      .map(|l| format!("{}:{}", l.file(), l.line()))
      .unwrap_or_default();
    let bt = std::backtrace::Backtrace::force_capture().to_string();
    // first frame that belongs to the library or to the harness
    let mut origin = "unknown".to_string();
    let mut lib_frame = String::new();
    let lines: Vec<&str> = bt.lines().collect();
    for (i, l) in lines.iter().enumerate() {
      let t = l.trim();
      let is_lib = t.contains("rspack_sources::");
      let is_harness = t.contains("rsv::");
      if t.contains("install_panic_hook") || t.contains("rspack_sources::verif::unsafe_site") {
        continue;
      }
      if is_lib || is_harness {
        // "<impl rspack_sources::... for rsv::...>" counts as harness code
        // only if no library frame precedes; take the first hit
        origin = if is_lib && !t.contains(" for rsv::") && !t.starts_with("rsv::") {
          "library".into()
        } else if is_lib && is_harness {
          // trait impl of a library trait for a harness type or vice versa
          if t.contains("rspack_sources::") && t.find("rspack_sources::") < t.find("rsv::") {
            "library".into()
          } else {
            "harness".into()
          }
        } else if is_lib {
          "library".into()
        } else {
          "harness".into()
        };
        lib_frame = t.to_string();
        if let Some(next) = lines.get(i + 1) {
          let n = next.trim();
          if n.starts_with("at ") {
            lib_frame.push(' ');
            lib_frame.push_str(n);
          }
        }
        break;
      }
    }
    LAST_PANIC.with(|c| {
      *c.borrow_mut() = Some((format!("{msg} @ {loc} [{lib_frame}]"), origin));
    });
  }));
}

pub fn take_panic() -> Option<(String, String)> {
  LAST_PANIC.with(|c| c.borrow_mut().take())
}

/// Evaluate one case; panics are classified.
pub fn eval(prop: &PropDef, case: &Value) -> Obs {
  let mut obs = Obs::new();
  let pre0 = rspack_sources::verif::unsafe_violations();
  let r = catch_unwind(AssertUnwindSafe(|| (prop.check)(case, &mut obs)));
  let pre1 = rspack_sources::verif::unsafe_violations();
  if pre1 > pre0 && r.is_ok() && prop.panic_policy != PanicPolicy::Count {
    // count-only mode (sanitizer builds): the hook saw a failed precondition
    obs.fail("unsafe_precondition", format!("{} unsafe-site precondition(s) failed in this case (count-only mode)", pre1 - pre0));
  }
  if r.is_err() {
    let (msg, origin) =
      take_panic().unwrap_or(("<no message>".into(), "unknown".into()));
    if origin == "harness" {
      obs.inconclusive.push(format!("harness panic: {msg}"));
      obs.count("harness_panics", 1);
    } else {
      obs.count("library_panics", 1);
      obs.notes.push(format!("library panic: {msg}"));
      let unsafe_pre = msg.contains("VERIF-UNSAFE-PRECONDITION");
      if unsafe_pre {
        obs.count("unsafe_precondition_panics", 1);
      }
      if prop.panic_policy == PanicPolicy::Violation
        || (prop.panic_policy == PanicPolicy::UnsafeOnly && unsafe_pre)
      {
        // one clause per (library function, kind of panic), independent of
        // line numbers, so that different panics are different findings
        let frame = msg
          .rsplit_once(" [")
          .map(|(_, f)| f.trim_end_matches(']'))
          .unwrap_or("");
        let func = frame
          .split(" at ")
          .next()
          .unwrap_or("")
          .split_once(": ")
          .map(|(_, f)| f)
          .unwrap_or(frame)
          .replace("::{{closure}}", "")
          .replace(' ', "");
        let kind: String = msg
          .split(" @ ")
          .next()
          .unwrap_or("")
          .chars()
          .map(|c| if c.is_ascii_digit() { '#' } else if c == ' ' { '_' } else { c })
          .filter(|c| c.is_ascii_alphanumeric() || "_#:()`".contains(*c))
          .take(60)
          .collect();
        let site = format!("{func}:{kind}");
        if unsafe_pre {
          obs.fail("unsafe_precondition", msg);
        } else {
          obs.fail(&format!("panic:{site}"), msg);
        }
      }
    }
  }
  if std::env::var("RSV_MEMORY_ONLY").is_ok_and(|v| v == "1") {
    // the concurrent workloads of C18 re-run for C19: only what C19 states
    // (failed unsafe preconditions, the write-once cache invariant the
    // lifetime extension rests on, invalid UTF-8) is a C19 violation; a wrong
    // answer or an ordinary panic is C18's business and must not alarm C19
    let before = obs.violations.len();
    obs.violations.retain(|(c, d)| {
      matches!(
        c.as_str(),
        "unsafe_precondition" | "cache_entry_replaced" | "cache_entry_removed" | "cached_map_replaced"
          | "chunk_invalid_utf8" | "rope_invalid_utf8" | "mappings_not_ascii"
      ) || d.contains("VERIF-UNSAFE")
    });
    let dropped = before - obs.violations.len();
    if dropped > 0 {
      obs.count("behavioural_differences_left_to_C18", dropped as u64);
    }
  }
  obs
}

#[derive(Clone, Debug)]
pub struct Known {
  pub property: String,
  pub clause: String,
  pub trigger: String,
  pub witness: String,
  pub text: String,
}

pub fn load_known(path: &str) -> Vec<Known> {
  let Ok(s) = std::fs::read_to_string(path) else {
    return vec![];
  };
  let mut v = Vec::new();
  for line in s.lines() {
    let line = line.trim();
    let Some(rest) = line.strip_prefix("known:") else {
      continue;
    };
    let mut kv: HashMap<&str, &str> = HashMap::new();
    let mut text = Vec::new();
    for tok in rest.split_whitespace() {
      match tok.split_once('=') {
        Some((k, val))
          if ["property", "clause", "trigger", "witness"].contains(&k)
            && !kv.contains_key(k) =>
        {
          kv.insert(k, val);
        }
        _ => text.push(tok),
      }
    }
    v.push(Known {
      property: kv.get("property").unwrap_or(&"").to_string(),
      clause: kv.get("clause").unwrap_or(&"").to_string(),
      trigger: kv.get("trigger").unwrap_or(&"").to_string(),
      witness: kv.get("witness").unwrap_or(&"").to_string(),
      text: text.join(" "),
    });
  }
  v
}

fn arg_map(args: &[String]) -> HashMap<String, String> {
  let mut m = HashMap::new();
  let mut i = 0;
  while i < args.len() {
    if let Some(k) = args[i].strip_prefix("--") {
      if i + 1 < args.len() && !args[i + 1].starts_with("--") {
        m.insert(k.to_string(), args[i + 1].clone());
        i += 2;
      } else {
        m.insert(k.to_string(), "1".to_string());
        i += 1;
      }
    } else {
      m.insert(format!("_{}", m.len()), args[i].clone());
      i += 1;
    }
  }
  m
}

fn tier_of(s: &str) -> Tier {
  if s == "thorough" {
    Tier::Thorough
  } else {
    Tier::Quick
  }
}

/// Shrink the tree of a failing case with respect to one clause.
fn shrink_case(prop: &PropDef, case: &Value, clause: &str, budget: usize) -> Value {
  if case.get("spec").is_none() || case.get("no_shrink").is_some() {
    return case.clone();
  }
  let Ok(spec) = serde_json::from_value::<Spec>(case["spec"].clone()) else {
    return case.clone();
  };
  let small = shrink::shrink(&spec, budget, &mut |cand| {
    let mut c = case.clone();
    c["spec"] = cand.to_json();
    eval(prop, &c).has_clause(clause)
  });
  let mut c = case.clone();
  c["spec"] = small.to_json();
  c
}

fn clip(v: &Value, max: usize) -> Value {
  let s = v.to_string();
  if s.len() <= max {
    v.clone()
  } else {
    let mut cut = max;
    while !s.is_char_boundary(cut) {
      cut -= 1;
    }
    json!({ "clipped_json": format!("{}…", &s[..cut]) })
  }
}

pub fn run_worker(args: &[String]) -> i32 {
  let a = arg_map(args);
  let prop_id = a.get("prop").cloned().unwrap_or_default();
  let Some(prop) = props::find(&prop_id) else {
    eprintln!("unknown property {prop_id}");
    return 2;
  };
  let tier = tier_of(a.get("tier").map(|s| s.as_str()).unwrap_or("quick"));
  let seed: u64 = a.get("seed").and_then(|s| s.parse().ok()).unwrap_or(1);
  let shard: u64 = a.get("shard").and_then(|s| s.parse().ok()).unwrap_or(0);
  let nshards: u64 = a.get("nshards").and_then(|s| s.parse().ok()).unwrap_or(1);
  let total = a
    .get("cases")
    .and_then(|s| s.parse().ok())
    .unwrap_or_else(|| (prop.cases)(tier));
  let budget: f64 = a
    .get("budget-secs")
    .and_then(|s| s.parse().ok())
    .unwrap_or(1e9);
  let out = a.get("out").cloned();
  let replay_dir = a
    .get("replay-dir")
    .cloned()
    .unwrap_or_else(|| "/verif/replays".into());
  let known = load_known(
    a.get("known")
      .map(|s| s.as_str())
      .unwrap_or("/verif/KNOWN_FINDINGS.txt"),
  );
  let known: Vec<Known> = known
    .into_iter()
    .filter(|k| k.property == prop.id)
    .collect();
  install_panic_hook();
  if let Some(m) = std::env::var("RSV_UNSAFE_MODE").ok().and_then(|m| m.parse::<u64>().ok()) {
    // sanitizer builds: let the unsafe operation run so that the sanitizer
    // sees it too; failed preconditions are still counted per case
    rspack_sources::verif::set_unsafe_mode(m);
  }
  let progress = a.get("progress").cloned();
  let skip: BTreeSet<usize> = a
    .get("skip")
    .map(|s| s.split(',').filter_map(|x| x.parse().ok()).collect())
    .unwrap_or_default();
  let only: Option<usize> = a.get("only").and_then(|s| s.parse().ok());
  let dump = a.get("dump").cloned();

  let my_cases = (total as u64 / nshards
    + if shard < total as u64 % nshards { 1 } else { 0 }) as usize;
  let t0 = Instant::now();
  let mut cases_run = 0usize;
  let mut nontrivial: BTreeSet<u64> = BTreeSet::new();
  let mut all_fps: BTreeSet<u64> = BTreeSet::new();
  let mut classes: BTreeMap<String, u64> = BTreeMap::new();
  let mut counters: BTreeMap<String, u64> = BTreeMap::new();
  let mut violations: Vec<Value> = Vec::new();
  let mut known_hits: BTreeMap<String, u64> = BTreeMap::new();
  let mut samples: Vec<Value> = Vec::new();
  let mut inconclusive: Vec<String> = Vec::new();
  let mut notes: Vec<String> = Vec::new();
  let mut kv_log: Vec<Value> = Vec::new();
  let mut early_stop = false;
  let mut seen_violation_keys: BTreeSet<String> = BTreeSet::new();
  let mut shrinks_done = 0usize;
  let mut exhaustive_cases = 0usize;

  for idx in 0..my_cases {
    if skip.contains(&idx) || only.is_some_and(|o| o != idx) {
      continue;
    }
    if let Some(p) = &progress {
      let _ = std::fs::write(p, idx.to_string());
    }
    if t0.elapsed().as_secs_f64() > budget {
      early_stop = true;
      break;
    }
    let mut rng = Rng::derive(seed, shard, idx as u64);
    // exhaustive enumerations come first: global case number = idx * nshards + shard
    let enumerated = props::enumeration(prop.id)
      .and_then(|e| e(idx as u64 * nshards + shard, tier));
    if enumerated.is_some() {
      exhaustive_cases += 1;
    }
    let case = match catch_unwind(AssertUnwindSafe(|| match enumerated {
      Some(c) => c,
      None => (prop.gen)(&mut rng, tier),
    })) {
      Ok(c) => c,
      Err(_) => {
        let (msg, _) = take_panic().unwrap_or_default();
        inconclusive.push(format!("generator panic at case {idx}: {msg}"));
        continue;
      }
    };
    let mut case = case;
    if case.is_object() {
      case["property"] = json!(prop.id);
    }
    if let Some(d) = &dump {
      // write the case as a replay document without evaluating it
      let doc = json!({
        "property": prop.id,
        "clause": "crash",
        "detail": "the worker process died while evaluating this case",
        "seed": seed, "shard": shard, "case_index": idx,
        "case": case,
      });
      let _ = std::fs::write(d, serde_json::to_string_pretty(&doc).unwrap());
      return 0;
    }
    let obs = eval(&prop, &case);
    cases_run += 1;
    let fp = crate::rng::fnv(case.to_string().as_bytes());
    all_fps.insert(fp);
    if obs.nontrivial {
      nontrivial.insert(fp);
      if samples.len() < 3 {
        samples.push(clip(&case, 4000));
      }
    }
    for c in &obs.classes {
      *classes.entry(c.clone()).or_insert(0) += 1;
    }
    for (k, v) in &obs.counters {
      *counters.entry(k.clone()).or_insert(0) += v;
    }
    for (k, v) in &obs.log {
      kv_log.push(json!([k, v]));
    }
    for m in &obs.notes {
      if notes.len() < 12 && !notes.contains(m) {
        notes.push(m.clone());
      }
    }
    for m in &obs.inconclusive {
      if inconclusive.len() < 20 {
        inconclusive.push(m.clone());
      }
    }
    if obs.failed() {
      *counters.entry("failing_cases".into()).or_insert(0) += 1;
      // one finding per clause of this case
      let mut clauses: Vec<String> = Vec::new();
      for (c, _) in &obs.violations {
        if !clauses.contains(c) {
          clauses.push(c.clone());
        }
      }
      for clause in clauses {
        let small = if shrinks_done < 400 {
          shrinks_done += 1;
          shrink_case(&prop, &case, &clause, 300)
        } else {
          case.clone()
        };
        let small_obs = eval(&prop, &small);
        let (small, detail) = match small_obs
          .violations
          .iter()
          .find(|(c, _)| *c == clause)
        {
          Some((_, d)) => (small, d.clone()),
          None => (
            case.clone(),
            obs
              .violations
              .iter()
              .find(|(c, _)| *c == clause)
              .map(|(_, d)| d.clone())
              .unwrap_or_default(),
          ),
        };
        let mut attributed = false;
        for k in &known {
          if k.clause.split('|').any(|c| c == clause) {
            if let Some(t) = props::trigger(&k.trigger) {
              if t(&small, &clause, &detail) {
                *known_hits.entry(k.trigger.clone()).or_insert(0) += 1;
                attributed = true;
                break;
              }
            }
          }
        }
        if attributed {
          continue;
        }
        let small_fp = crate::rng::fnv(small.to_string().as_bytes());
        let key = format!("{clause}/{small_fp:016x}");
        if !seen_violation_keys.insert(key) {
          continue;
        }
        if violations.len() >= 50 {
          *counters.entry("violations_not_listed".into()).or_insert(0) += 1;
          continue;
        }
        let path = format!("{replay_dir}/{}-{small_fp:016x}.json", prop.id);
        let _ = std::fs::create_dir_all(&replay_dir);
        let doc = json!({
          "property": prop.id,
          "clause": clause,
          "detail": detail,
          "seed": seed,
          "shard": shard,
          "case_index": idx,
          "tier": if tier == Tier::Quick { "quick" } else { "thorough" },
          "case": small,
          "original_case": clip(&case, 20000),
        });
        let _ = std::fs::write(&path, serde_json::to_string_pretty(&doc).unwrap());
        violations.push(json!({
          "clause": clause,
          "detail": detail,
          "replay": path,
          "case_index": idx,
        }));
      }
    }
  }

  let hooks = rspack_sources::verif::unsafe_hits();
  let (cache_writes, cache_replacements) =
    rspack_sources::verif::cache_write_counts();
  let summary = json!({
    "property": prop.id,
    "shard": shard,
    "nshards": nshards,
    "seed": seed,
    "cases_planned": my_cases,
    "cases": cases_run,
    "exhaustive_cases": exhaustive_cases,
    "distinct_cases": all_fps.len(),
    "nontrivial_fps": nontrivial.iter().map(|f| format!("{f:016x}")).collect::<Vec<_>>(),
    "classes": classes,
    "counters": counters,
    "violations": violations,
    "known_hits": known_hits,
    "samples": samples,
    "inconclusive": inconclusive,
    "notes": notes,
    "kv_log": kv_log,
    "early_stop": early_stop,
    "elapsed_s": t0.elapsed().as_secs_f64(),
    "unsafe_site_hits": hooks,
    "unsafe_precondition_failures": rspack_sources::verif::unsafe_violations(),
    "cache_writes": cache_writes,
    "cache_replacements": cache_replacements,
    "rule": prop.rule,
  });
  let text = serde_json::to_string(&summary).unwrap();
  match out {
    Some(p) => {
      if std::fs::write(&p, &text).is_err() {
        eprintln!("cannot write {p}");
        return 2;
      }
    }
    None => println!("{text}"),
  }
  0
}

/// `rsv replay <file>`: re-evaluate the case stored in a replay / witness file.
/// Prints one JSON line {"property","clause","reproduced","violations":[..]}.
pub fn run_replay(args: &[String]) -> i32 {
  let Some(path) = args.first() else {
    eprintln!("usage: rsv replay <file>");
    return 2;
  };
  let Ok(text) = std::fs::read_to_string(path) else {
    eprintln!("cannot read {path}");
    return 2;
  };
  let Ok(doc) = serde_json::from_str::<Value>(&text) else {
    eprintln!("bad json in {path}");
    return 2;
  };
  let prop_id = doc["property"].as_str().unwrap_or("");
  let Some(prop) = props::find(prop_id) else {
    eprintln!("unknown property {prop_id}");
    return 2;
  };
  install_panic_hook();
  let obs = eval(&prop, &doc["case"]);
  let clause = doc["clause"].as_str().unwrap_or("");
  let reproduced = obs.has_clause(clause);
  // which known findings would this case be attributed to?
  let mut attributed: Vec<String> = Vec::new();
  for k in load_known("/verif/KNOWN_FINDINGS.txt") {
    if k.property != prop_id {
      continue;
    }
    for (c, d) in &obs.violations {
      if k.clause.split('|').any(|x| x == c) {
        if let Some(t) = props::trigger(&k.trigger) {
          if t(&doc["case"], c, d) && !attributed.contains(&k.trigger) {
            attributed.push(k.trigger.clone());
          }
        }
      }
    }
  }
  println!(
    "{}",
    json!({
      "property": prop_id,
      "clause": clause,
      "reproduced": reproduced,
      "violations": obs.violations,
      "inconclusive": obs.inconclusive,
      "known_finding_triggers_matching": attributed,
    })
  );
  if !obs.inconclusive.is_empty() {
    return 2;
  }
  if obs.failed() {
    1
  } else {
    0
  }
}
