//! Greedy shrinking of tree specs (keeps failing cases small and readable).

use std::collections::HashMap;

use crate::{gen::boundaries, spec::Spec};

/// Structural domain rules that every generated tree satisfies and that a
/// shrunk tree must keep satisfying.
pub fn domain_ok(spec: &Spec) -> bool {
  let mut names: HashMap<&str, &str> = HashMap::new();
  let mut ok = true;
  spec.walk(&mut |s| match s {
    Spec::Original { text, name } => {
      if let Some(prev) = names.insert(name.as_str(), text.as_str()) {
        if prev != text {
          ok = false;
        }
      }
    }
    Spec::Replace { inner, ops } => {
      let t = inner.model_text();
      let b = boundaries(&t);
      for op in ops {
        if op.start > op.end && !crate::gen::ALLOW_REVERSED.load(std::sync::atomic::Ordering::Relaxed) {
          ok = false;
        }
        for p in [op.start as usize, op.end as usize] {
          if p < t.len() && b.binary_search(&p).is_err() {
            ok = false;
          }
        }
      }
    }
    _ => {}
  });
  ok
}

fn shrink_text(t: &str) -> Vec<String> {
  let mut v = Vec::new();
  if t.is_empty() {
    return v;
  }
  v.push(String::new());
  let b = boundaries(t);
  let mid = b[b.len() / 2];
  v.push(t[..mid].to_string());
  v.push(t[mid..].to_string());
  // remove single chars (bounded)
  for w in b.windows(2).take(24) {
    let mut s = String::new();
    s.push_str(&t[..w[0]]);
    s.push_str(&t[w[1]..]);
    v.push(s);
  }
  v
}

/// One-step smaller variants of `spec`.
pub fn candidates(spec: &Spec) -> Vec<Spec> {
  let mut out = Vec::new();
  match spec {
    Spec::Raw { text } => {
      out.extend(shrink_text(text).into_iter().map(|text| Spec::Raw { text }))
    }
    Spec::RawString { text } => out.extend(
      shrink_text(text)
        .into_iter()
        .map(|text| Spec::RawString { text }),
    ),
    Spec::RawBytes { bytes } | Spec::RawBuffer { bytes } => {
      let mk = |bytes: Vec<u8>| match spec {
        Spec::RawBytes { .. } => Spec::RawBytes { bytes },
        _ => Spec::RawBuffer { bytes },
      };
      if !bytes.is_empty() {
        out.push(mk(vec![]));
        out.push(mk(bytes[..bytes.len() / 2].to_vec()));
        out.push(mk(bytes[bytes.len() / 2..].to_vec()));
        for i in 0..bytes.len().min(24) {
          let mut b = bytes.clone();
          b.remove(i);
          out.push(mk(b));
        }
      }
      if let Ok(text) = std::str::from_utf8(bytes) {
        out.push(Spec::Raw { text: text.into() });
      }
    }
    Spec::Original { text, name } => {
      out.push(Spec::Raw { text: text.clone() });
      out.extend(shrink_text(text).into_iter().map(|text| Spec::Original {
        text,
        name: name.clone(),
      }));
    }
    Spec::SourceMap {
      text,
      name,
      map,
      original,
      inner,
      remove,
    } => {
      out.push(Spec::Raw { text: text.clone() });
      if inner.is_some() {
        out.push(Spec::SourceMap {
          text: text.clone(),
          name: name.clone(),
          map: map.clone(),
          original: None,
          inner: None,
          remove: false,
        });
      }
      for i in 0..map.segs.len() {
        let mut m = map.clone();
        m.segs.remove(i);
        out.push(Spec::SourceMap {
          text: text.clone(),
          name: name.clone(),
          map: m,
          original: original.clone(),
          inner: inner.clone(),
          remove: *remove,
        });
      }
      for i in 0..map.segs.len() {
        if let Some(o) = &map.segs[i].orig {
          if o.name.is_some() {
            let mut m = map.clone();
            m.segs[i].orig.as_mut().unwrap().name = None;
            out.push(Spec::SourceMap {
              text: text.clone(),
              name: name.clone(),
              map: m,
              original: original.clone(),
              inner: inner.clone(),
              remove: *remove,
            });
          }
        }
      }
      if map.source_root.is_some() || map.file.is_some() {
        let mut m = map.clone();
        m.source_root = None;
        m.file = None;
        out.push(Spec::SourceMap {
          text: text.clone(),
          name: name.clone(),
          map: m,
          original: original.clone(),
          inner: inner.clone(),
          remove: *remove,
        });
      }
      if let Some(im) = inner {
        for i in 0..im.segs.len() {
          let mut m = im.clone();
          m.segs.remove(i);
          out.push(Spec::SourceMap {
            text: text.clone(),
            name: name.clone(),
            map: map.clone(),
            original: original.clone(),
            inner: Some(m),
            remove: *remove,
          });
        }
      }
    }
    Spec::Custom {
      pieces,
      map,
      use_rope,
    } => {
      out.push(Spec::Raw {
        text: pieces.concat(),
      });
      if pieces.len() > 1 {
        out.push(Spec::Custom {
          pieces: vec![pieces.concat()],
          map: map.clone(),
          use_rope: *use_rope,
        });
      }
      if let Some(m) = map {
        for i in 0..m.segs.len() {
          let mut m2 = m.clone();
          m2.segs.remove(i);
          out.push(Spec::Custom {
            pieces: pieces.clone(),
            map: Some(m2),
            use_rope: *use_rope,
          });
        }
      }
    }
    Spec::Concat { children, how } => {
      for c in children {
        out.push(c.clone());
      }
      for i in 0..children.len() {
        let mut ch = children.clone();
        ch.remove(i);
        out.push(Spec::Concat {
          children: ch,
          how: *how,
        });
      }
      for i in 0..children.len() {
        for cand in candidates(&children[i]) {
          let mut ch = children.clone();
          ch[i] = cand;
          out.push(Spec::Concat {
            children: ch,
            how: *how,
          });
        }
      }
    }
    Spec::Replace { inner, ops } => {
      out.push((**inner).clone());
      for i in 0..ops.len() {
        let mut o = ops.clone();
        o.remove(i);
        out.push(Spec::Replace {
          inner: inner.clone(),
          ops: o,
        });
      }
      for i in 0..ops.len() {
        let op = &ops[i];
        let mut variants = Vec::new();
        if op.name.is_some() {
          let mut o = op.clone();
          o.name = None;
          variants.push(o);
        }
        if op.enforce != 1 {
          let mut o = op.clone();
          o.enforce = 1;
          variants.push(o);
        }
        for c in shrink_text(&op.content).into_iter().take(6) {
          let mut o = op.clone();
          o.content = c;
          variants.push(o);
        }
        if op.end > op.start {
          let mut o = op.clone();
          o.end = o.start;
          variants.push(o);
          let mut o = op.clone();
          o.end -= 1;
          variants.push(o);
        }
        for v in variants {
          let mut o = ops.clone();
          o[i] = v;
          out.push(Spec::Replace {
            inner: inner.clone(),
            ops: o,
          });
        }
      }
      for cand in candidates(inner) {
        out.push(Spec::Replace {
          inner: Box::new(cand),
          ops: ops.clone(),
        });
      }
    }
    Spec::Cached { inner } => {
      out.push((**inner).clone());
      for cand in candidates(inner) {
        out.push(Spec::Cached {
          inner: Box::new(cand),
        });
      }
    }
    Spec::Boxed { inner } => {
      out.push((**inner).clone());
      for cand in candidates(inner) {
        out.push(Spec::Boxed {
          inner: Box::new(cand),
        });
      }
    }
  }
  out
}

/// Greedy shrink: `still_fails(candidate)` must be true to accept.
pub fn shrink(
  spec: &Spec,
  max_evals: usize,
  still_fails: &mut dyn FnMut(&Spec) -> bool,
) -> Spec {
  let mut cur = spec.clone();
  let mut evals = 0;
  'outer: loop {
    for cand in candidates(&cur) {
      if evals >= max_evals {
        break 'outer;
      }
      if !domain_ok(&cand) {
        continue;
      }
      evals += 1;
      if still_fails(&cand) {
        cur = cand;
        continue 'outer;
      }
    }
    break;
  }
  cur
}
