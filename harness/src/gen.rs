//! Seeded workload generators. Everything is a pure function of the Rng.

use crate::{
  rng::Rng,
  spec::{How, MapSpec, Op, Orig, Seg, Spec},
};

#[derive(Clone, Debug)]
pub struct GenCfg {
  pub max_depth: usize,
  pub max_width: usize,
  pub max_text: usize,
  /// texts restricted to ASCII
  pub ascii: bool,
  /// binary leaves (possibly invalid UTF-8)
  pub bytes_leaves: bool,
  pub sourcemap_leaves: bool,
  /// maps with segments / indices outside text and tables
  pub wild_maps: bool,
  pub custom_leaves: bool,
  /// SourceMapSource with inner map
  pub combined_leaves: bool,
  pub cached: bool,
  pub cached_under_replace: bool,
  pub replace: bool,
  /// replacement positions like u32::MAX - 1
  pub wild_ops: bool,
  /// replacement ranges with end < start (outside the domain of the
  /// model-based properties; only the self-consistency monitors C07 and C19
  /// switch this on)
  pub reversed_ops: bool,
  pub boxed: bool,
  /// zero-width segments at end of line / text in consistent maps
  pub zero_width: bool,
  pub original_leaves: bool,
  pub max_ops: usize,
}

impl GenCfg {
  pub fn ascii_consistent(max_depth: usize) -> GenCfg {
    GenCfg {
      max_depth,
      max_width: 4,
      max_text: 40,
      ascii: true,
      bytes_leaves: false,
      sourcemap_leaves: true,
      wild_maps: false,
      custom_leaves: true,
      combined_leaves: false,
      cached: true,
      cached_under_replace: true,
      replace: true,
      wild_ops: true,
      reversed_ops: false,
      boxed: true,
      zero_width: false,
      original_leaves: true,
      max_ops: 5,
    }
  }

  pub fn hostile(max_depth: usize) -> GenCfg {
    GenCfg {
      ascii: false,
      bytes_leaves: true,
      wild_maps: true,
      combined_leaves: true,
      ..GenCfg::ascii_consistent(max_depth)
    }
  }
}

/// Per-case pools so that names repeat with the same content.
#[derive(Clone, Debug)]
pub struct Pool {
  pub originals: Vec<(String, String)>,
  /// shared files for SourceMapSource leaves: (name, content over a disjoint
  /// alphabet or none)
  pub shared: Vec<(String, Option<String>)>,
  pub names: Vec<String>,
  pub counter: usize,
}

const ASCII_WORDS: &[&str] = &[
  "a", "b", "ab", "foo", "x", "y1", "if", "(", ")", "=", "0", "bar", "q",
];
const MULTI: &[&str] = &["é", "→", "😀", "ü", "中"];

/// 8-20 KiB texts are only generated for the monitors that do not build
/// per-character attribution tables (C01, C07, C17, C19 switch this on).
pub static HUGE_TEXTS: std::sync::atomic::AtomicBool = std::sync::atomic::AtomicBool::new(false);

/// Set once a generator with `reversed_ops` has run in this process: the
/// domain filter of edits / shrinking then lets replacement ranges with
/// end < start through (the monitors that switch it on make no use of the
/// splice model for such trees).
pub static ALLOW_REVERSED: std::sync::atomic::AtomicBool = std::sync::atomic::AtomicBool::new(false);

pub fn gen_text(rng: &mut Rng, max_len: usize, ascii: bool) -> String {
  // rare size / alignment classes that small random texts never reach
  if max_len >= 12 {
    match rng.below(90) {
      0 => return gen_long_line_text(rng, ascii),
      1 => return gen_text_inner(rng, max_len, ascii).replace('\n', "\r\n"),
      2 => return gen_many_lines_text(rng, ascii),
      3 if HUGE_TEXTS.load(std::sync::atomic::Ordering::Relaxed) && rng.chance(1, 3) => {
        return gen_huge_text(rng, ascii)
      }
      _ => {}
    }
  }
  gen_text_inner(rng, max_len, ascii)
}

/// A text with one or two very long lines (columns beyond 32 / 1024: multi-digit VLQ).
fn gen_long_line_text(rng: &mut Rng, ascii: bool) -> String {
  let mut s = String::new();
  let lines = rng.range(1, 3);
  for l in 0..lines {
    let target = *rng.pick(&[70usize, 300, 1100, 2100]);
    while s.len() < target * (l + 1) / lines.max(1) + 10 {
      s.push_str(*rng.pick(ASCII_WORDS));
      if rng.chance(1, 6) {
        s.push(*rng.pick(&[';', ' ', '{', '}']));
      }
      if !ascii && rng.chance(1, 40) {
        s.push_str(*rng.pick(MULTI));
      }
    }
    if l + 1 < lines || rng.chance(1, 2) {
      s.push('\n');
    }
  }
  s
}

/// 70-400 short lines (line numbers beyond 64 / 128: encoder line gaps,
/// multi-digit line deltas), some of them empty.
fn gen_many_lines_text(rng: &mut Rng, ascii: bool) -> String {
  let n = *rng.pick(&[70usize, 130, 200, 400]);
  let mut s = String::new();
  for _ in 0..n {
    match rng.below(6) {
      0 => {}
      1 => s.push_str(*rng.pick(ASCII_WORDS)),
      _ => {
        for _ in 0..rng.range(1, 3) {
          s.push_str(*rng.pick(ASCII_WORDS));
          s.push(*rng.pick(&[';', ' ', '{', '}', '=']));
        }
        if !ascii && rng.chance(1, 30) {
          s.push_str(*rng.pick(MULTI));
        }
      }
    }
    s.push('\n');
  }
  if rng.chance(1, 2) {
    s.push_str("end");
  }
  s
}

/// 8-20 KiB of text (size thresholds of buffers / fast paths); one in four
/// (not under Miri) is a text beyond the 16-bit range instead: one line of
/// more than 65 535 bytes (minified bundles), or more than 65 535 lines.
fn gen_huge_text(rng: &mut Rng, ascii: bool) -> String {
  if !cfg!(miri) && rng.chance(1, 4) {
    return gen_beyond_u16_text(rng, ascii);
  }
  let target = *rng.pick(&[8192usize, 8200, 10000, 20000]);
  let mut s = String::with_capacity(target + 16);
  while s.len() < target {
    s.push_str(*rng.pick(ASCII_WORDS));
    match rng.below(12) {
      0 => s.push('\n'),
      1 => s.push(';'),
      2 => s.push(' '),
      3 if !ascii => s.push_str(*rng.pick(MULTI)),
      _ => {}
    }
  }
  s
}

fn gen_beyond_u16_text(rng: &mut Rng, ascii: bool) -> String {
  let target = *rng.pick(&[65_530usize, 65_600, 66_000, 70_000, 131_100]);
  let mut s = String::with_capacity(target + 16);
  if rng.chance(1, 3) {
    // many short lines
    while s.len() < target {
      match rng.below(8) {
        0 => s.push_str(*rng.pick(ASCII_WORDS)),
        1 if !ascii => s.push_str(*rng.pick(MULTI)),
        _ => {}
      }
      s.push('\n');
    }
    if rng.chance(1, 2) {
      s.push_str("end");
    }
    return s;
  }
  // one or two giant lines, a short line before them now and then
  if rng.chance(1, 3) {
    s.push_str("x = 1;\n");
  }
  let split = rng.chance(1, 3).then(|| rng.range(1000, target - 1000));
  let mut split_done = false;
  while s.len() < target {
    s.push_str(*rng.pick(ASCII_WORDS));
    match rng.below(16) {
      0 => s.push(';'),
      1 => s.push(' '),
      2 if !ascii => s.push_str(*rng.pick(MULTI)),
      _ => {}
    }
    if let Some(at) = split {
      if s.len() >= at && !split_done {
        s.push_str("\nQ");
        split_done = true;
      }
    }
  }
  if rng.chance(1, 2) {
    s.push('\n');
  }
  s
}

fn gen_text_inner(rng: &mut Rng, max_len: usize, ascii: bool) -> String {
  let shape = rng.below(20);
  if shape == 0 {
    return String::new();
  }
  if shape == 1 {
    return "\n".repeat(rng.range(1, 3));
  }
  let target = rng.range(1, max_len.max(1));
  let mut s = String::new();
  while s.len() < target {
    let r = rng.below(100);
    match r {
      0..=39 => s.push_str(*rng.pick(ASCII_WORDS)),
      40..=49 => s.push(';'),
      50..=54 => s.push('{'),
      55..=59 => s.push('}'),
      60..=69 => s.push(' '),
      70..=84 => s.push('\n'),
      85..=87 => s.push('\t'),
      88..=89 => s.push('\r'),
      90..=95 => {
        if ascii {
          s.push_str(*rng.pick(ASCII_WORDS))
        } else {
          s.push_str(*rng.pick(MULTI))
        }
      }
      _ => s.push_str("\n\n"),
    }
  }
  // trailing newline or not
  match rng.below(4) {
    0 => {
      if !s.ends_with('\n') {
        s.push('\n')
      }
    }
    1 => {
      while s.ends_with('\n') {
        s.pop();
      }
    }
    _ => {}
  }
  s
}

/// Text over an alphabet that never occurs in `gen_text` output.
pub fn gen_disjoint_text(rng: &mut Rng) -> String {
  let lines = rng.range(1, 5);
  let mut s = String::new();
  for _ in 0..lines {
    let n = rng.range(0, 12);
    for _ in 0..n {
      s.push(*rng.pick(&['A', 'B', 'C', 'D', 'E', '_', '#']));
    }
    s.push('\n');
  }
  s
}

pub fn gen_bytes(rng: &mut Rng, max_len: usize) -> Vec<u8> {
  let mut v = gen_text(rng, max_len, false).into_bytes();
  if rng.chance(2, 3) && !v.is_empty() {
    // inject invalid UTF-8
    for _ in 0..rng.range(1, 3) {
      let at = rng.below(v.len() + 1);
      let bad: &[u8] = match rng.below(4) {
        0 => &[0xff],
        1 => &[0xc3],
        2 => &[0xe2, 0x86],
        _ => &[0x80, 0x0a],
      };
      for (k, b) in bad.iter().enumerate() {
        v.insert((at + k).min(v.len()), *b);
      }
    }
  }
  v
}

pub fn new_pool(rng: &mut Rng, cfg: &GenCfg) -> Pool {
  let n = rng.range(1, 3);
  let originals = (0..n)
    .map(|i| {
      (
        ["a.js", "src/b.js", "lib\\c.js"][i].to_string(),
        gen_text(rng, cfg.max_text, cfg.ascii),
      )
    })
    .collect();
  let shared = (0..3)
    .map(|i| {
      (
        format!("s{i}.js"),
        rng.chance(2, 3).then(|| gen_disjoint_text(rng)),
      )
    })
    .collect();
  Pool {
    originals,
    shared,
    names: vec!["n0".into(), "n1".into(), "foo".into(), "ab".into()],
    counter: 0,
  }
}

/// Char boundaries of `text` (byte offsets), including 0 and len.
pub fn boundaries(text: &str) -> Vec<usize> {
  let mut v: Vec<usize> = text.char_indices().map(|(i, _)| i).collect();
  v.push(text.len());
  v
}

fn line_starts(text: &str) -> Vec<(usize, usize)> {
  // (start, len including newline)
  let mut v = Vec::new();
  let mut start = 0;
  for l in crate::model::attr::lines_of(text) {
    v.push((start, l.len()));
    start += l.len();
  }
  v
}

/// A map consistent with ASCII `text`: sorted segments on real characters.
pub fn gen_consistent_map(
  rng: &mut Rng,
  text: &str,
  pool: &mut Pool,
  zero_width: bool,
  allow_root: bool,
) -> MapSpec {
  pool.counter += 1;
  let mut sources: Vec<String> = Vec::new();
  let mut contents: Vec<String> = Vec::new();
  // source kinds: 0 identity, 1 shared
  let mut identity_idx: Option<u32> = None;
  let nsrc = rng.range(1, 3);
  for _ in 0..nsrc {
    if identity_idx.is_none() && rng.chance(1, 2) {
      identity_idx = Some(sources.len() as u32);
      // mostly a relative name; absolute and dot-relative spellings too
      // (joined verbatim with a sourceRoot, whatever the root ends in)
      sources.push(match rng.below(12) {
        0 => format!("/gen{}.js", pool.counter),
        1 => format!("./gen{}.js", pool.counter),
        2 => format!("/abs/../gen{}.js", pool.counter),
        _ => format!("gen{}.js", pool.counter),
      });
      contents.push(text.to_string());
    } else {
      let (name, content) = rng.pick(&pool.shared).clone();
      if sources.contains(&name) {
        continue;
      }
      sources.push(name);
      contents.push(content.unwrap_or_default());
    }
  }
  if sources.is_empty() {
    let (name, content) = pool.shared[0].clone();
    sources.push(name);
    contents.push(content.unwrap_or_default());
  }
  // drop trailing empty contents sometimes (content "absent")
  while contents.last().map_or(false, |c| c.is_empty()) && rng.chance(1, 2) {
    contents.pop();
  }
  let nnames = rng.below(4);
  let names: Vec<String> = pool.names[..nnames].to_vec();
  let mut segs = Vec::new();
  let lines = line_starts(text);
  let nlines = lines.len();
  for (li, (_, len)) in lines.iter().enumerate() {
    if rng.chance(1, 5) {
      continue; // line without segments
    }
    let gl = li as u32 + 1;
    let mut cols: Vec<u32> = Vec::new();
    // long lines sometimes get many segments (lookup tables / searches beyond small sizes)
    let k = if *len > 70 && rng.chance(1, 2) {
      rng.range(65, 140).min(*len)
    } else {
      rng.range(1, 4)
    };
    for _ in 0..k {
      let c = if rng.chance(1, 3) {
        0
      } else {
        rng.below(*len) as u32
      };
      if !cols.contains(&c) {
        cols.push(c);
      }
    }
    if zero_width && rng.chance(1, 4) {
      cols.push(*len as u32);
    }
    cols.sort();
    cols.dedup();
    for gc in cols {
      let orig = if rng.chance(1, 5) {
        None
      } else {
        let src = rng.below(sources.len()) as u32;
        let (line, col) = if Some(src) == identity_idx {
          (gl, gc)
        } else {
          if rng.chance(1, 25) {
            // far-away original positions (multi-digit VLQ deltas)
            (rng.range(30, 5000) as u32, rng.range(30, 70000) as u32)
          } else {
            (rng.range(1, 5) as u32, rng.below(12) as u32)
          }
        };
        let name = (!names.is_empty() && rng.chance(1, 3))
          .then(|| rng.below(names.len()) as u32);
        Some(Orig {
          src,
          line,
          col,
          name,
        })
      };
      segs.push(Seg { gl, gc, orig });
    }
  }
  if zero_width && text.ends_with('\n') && rng.chance(1, 4) {
    // zero-width segment at the very end of the text
    segs.push(Seg {
      gl: nlines as u32 + 1,
      gc: 0,
      orig: Some(Orig {
        src: 0,
        line: 1,
        col: 0,
        name: None,
      }),
    });
  }
  let source_root = if allow_root { gen_source_root(rng) } else { None };
  MapSpec {
    segs,
    raw_mappings: None,
    sources,
    contents,
    names,
    source_root,
    file: rng.chance(1, 6).then(|| "out.js".to_string()),
    debug_id: None,
  }
}

/// sourceRoot values: none (mostly), empty, with / without one trailing
/// slash, and the URL-like roots that end in several slashes.
pub fn gen_source_root(rng: &mut Rng) -> Option<String> {
  match rng.below(16) {
    0 => Some(String::new()),
    1 => Some("r".to_string()),
    2 => Some("r/".to_string()),
    3 => Some("webpack://".to_string()),
    4 => Some(rng.pick(&["file:///", "d//", "/", "h://x/y/", "a/b"]).to_string()),
    5 => Some("src".to_string()),
    _ => None,
  }
}

/// A map that may point anywhere: outside the text, outside the tables.
pub fn gen_wild_map(rng: &mut Rng, text: &str, pool: &mut Pool) -> MapSpec {
  let mut m = gen_consistent_map(rng, text, pool, true, true);
  // hostile source names: empty (what a JSON null becomes) or absolute
  if !m.sources.is_empty() && rng.chance(1, 6) {
    let k = rng.below(m.sources.len());
    m.sources[k] = rng.pick(&["", "/abs.js", "/"]).to_string();
    if m.source_root.is_none() && rng.chance(1, 2) {
      m.source_root = Some(rng.pick(&["r", "r/", "webpack://"]).to_string());
    }
  }
  let nlines = crate::model::attr::lines_of(text).len() as u32;
  let extra = rng.range(1, 4);
  for _ in 0..extra {
    let gl = match rng.below(4) {
      0 => nlines + rng.range(1, 3) as u32,
      1 => 1,
      _ => rng.range(1, nlines.max(1) as usize) as u32,
    };
    let gc = match rng.below(3) {
      0 => rng.below(5) as u32,
      1 => 40 + rng.below(100) as u32,
      _ => rng.below(40) as u32,
    };
    let orig = if rng.chance(1, 6) {
      None
    } else {
      Some(Orig {
        src: if rng.chance(1, 3) {
          m.sources.len() as u32 + rng.below(3) as u32
        } else {
          rng.below(m.sources.len().max(1)) as u32
        },
        // original lines start at 1 (line 0 would be a negative running
        // value in the v3 format, outside its grammar)
        line: if rng.chance(1, 4) {
          50 + rng.below(1000) as u32
        } else {
          rng.range(1, 6) as u32
        },
        col: if rng.chance(1, 4) {
          1000 + rng.below(100000) as u32
        } else {
          rng.below(30) as u32
        },
        name: rng.chance(1, 3).then(|| {
          if rng.chance(1, 2) {
            m.names.len() as u32 + rng.below(3) as u32
          } else {
            rng.below(m.names.len().max(1)) as u32
          }
        }),
      })
    };
    m.segs.push(Seg { gl, gc, orig });
  }
  m.segs.sort_by_key(|s| (s.gl, s.gc));
  m.segs.dedup_by_key(|s| (s.gl, s.gc));
  if rng.chance(1, 6) {
    m.contents.clear();
  }
  if rng.chance(1, 8) {
    m.sources.clear();
    m.contents.clear();
  }
  m
}

pub fn gen_ops(rng: &mut Rng, inner: &str, cfg: &GenCfg, pool: &Pool) -> Vec<Op> {
  let b = boundaries(inner);
  let len = inner.len();
  let n = match rng.below(40) {
    0..=3 => 0,
    4..=19 => 1,
    20..=31 => 2,
    // rarely a long replacement list (sorting / index tables beyond small sizes)
    32 => rng.range(20, 45),
    _ => rng.range(3, cfg.max_ops.max(3)),
  };
  let newlines: Vec<usize> = inner
    .bytes()
    .enumerate()
    .filter(|(_, c)| *c == b'\n')
    .map(|(i, _)| i)
    .collect();
  let mut ops: Vec<Op> = Vec::new();
  for _ in 0..n {
    let (mut start, mut end);
    let shape = rng.below(100);
    if shape < 12 && !ops.is_empty() {
      // equal key or touching / nested relative to an earlier op
      let prev = rng.pick(&ops).clone();
      match rng.below(4) {
        0 => {
          start = prev.start;
          end = prev.end;
        }
        1 => {
          start = prev.end;
          end = prev.end;
        }
        2 => {
          start = prev.start;
          end = prev.start;
        }
        _ => {
          start = prev.start;
          end = prev.end.max(prev.start);
          // nested: shrink to a boundary inside if possible
          let inside: Vec<usize> = b
            .iter()
            .copied()
            .filter(|x| *x as u32 >= prev.start && *x as u32 <= prev.end)
            .collect();
          if inside.len() >= 2 {
            let i = rng.below(inside.len() - 1);
            start = inside[i] as u32;
            end = inside[rng.range(i, inside.len() - 1)] as u32;
          }
        }
      }
    } else if shape < 30 && !newlines.is_empty() {
      // delete / replace exactly a line break (at column 0 or > 0)
      let nl = *rng.pick(&newlines);
      start = nl as u32;
      end = nl as u32 + 1;
      if rng.chance(1, 3) {
        // a range that spans the line break
        let lo: Vec<usize> = b.iter().copied().filter(|x| *x <= nl).collect();
        let hi: Vec<usize> = b.iter().copied().filter(|x| *x > nl).collect();
        start = *rng.pick(&lo) as u32;
        end = *rng.pick(&hi) as u32;
      }
    } else if shape < 40 {
      // beyond the end
      start = (len + *rng.pick(&[0usize, 1, 7])) as u32;
      end = start + *rng.pick(&[0u32, 0, 1, 5]);
      if cfg.wild_ops && rng.chance(1, 4) {
        start = *rng.pick(&[len as u32, u32::MAX - 1, 1 << 20]);
        end = *rng.pick(&[u32::MAX - 1, u32::MAX]);
        if end < start {
          end = start;
        }
      }
    } else {
      let i = rng.below(b.len());
      start = b[i] as u32;
      end = match rng.below(10) {
        0..=3 => start,
        4..=7 => b[rng.range(i, (i + 4).min(b.len() - 1))] as u32,
        8 => b[rng.range(i, b.len() - 1)] as u32,
        _ => (len + rng.below(3)) as u32,
      };
    }
    if end < start {
      std::mem::swap(&mut start, &mut end);
    }
    if cfg.reversed_ops {
      ALLOW_REVERSED.store(true, std::sync::atomic::Ordering::Relaxed);
      if start != end && rng.chance(1, 16) {
        std::mem::swap(&mut start, &mut end);
      }
    }
    let content = match rng.below(20) {
      0..=1 => String::new(),
      2..=11 => gen_text(rng, 6, cfg.ascii).replace('\n', ""),
      12..=15 => {
        let mut t = gen_text(rng, 8, cfg.ascii);
        if !t.contains('\n') {
          let bs = boundaries(&t);
          let at = *rng.pick(&bs);
          t.insert(at, '\n');
        }
        t
      }
      16..=17 => format!("{}\n", gen_text(rng, 5, cfg.ascii).replace('\n', "")),
      _ => "\n".to_string(),
    };
    // rare coincidence: the replacement content equals (a prefix of) the text it replaces
    let content = if start <= end && rng.chance(1, 14) && (start as usize) < len {
      let e = (end as usize).min(len);
      let s0 = (start as usize).min(e);
      if rng.chance(1, 2) {
        inner[s0..e].to_string()
      } else {
        // same original text followed by something else
        format!("{}{}", &inner[s0..e], content)
      }
    } else {
      content
    };
    let name = rng.chance(1, 3).then(|| rng.pick(&pool.names).clone());
    let enforce = match rng.below(10) {
      0 => 0,
      1 => 2,
      _ => 1,
    };
    ops.push(Op {
      start,
      end,
      content,
      name,
      enforce,
      plain_api: rng.chance(2, 3),
      observe_before: rng.chance(1, 8),
    });
  }
  ops
}

pub fn gen_leaf(rng: &mut Rng, cfg: &GenCfg, pool: &mut Pool) -> Spec {
  loop {
    let r = rng.below(100);
    match r {
      0..=19 => {
        return Spec::Raw {
          text: gen_text(rng, cfg.max_text, cfg.ascii),
        }
      }
      20..=27 => {
        return Spec::RawString {
          text: gen_text(rng, cfg.max_text, cfg.ascii),
        }
      }
      28..=37 => {
        if cfg.bytes_leaves {
          let bytes = gen_bytes(rng, cfg.max_text);
          return if rng.chance(1, 2) {
            Spec::RawBytes { bytes }
          } else {
            Spec::RawBuffer { bytes }
          };
        } else if rng.chance(1, 2) {
          // valid UTF-8 / ASCII binary leaves are always allowed
          let bytes = gen_text(rng, cfg.max_text, cfg.ascii).into_bytes();
          return if rng.chance(1, 2) {
            Spec::RawBytes { bytes }
          } else {
            Spec::RawBuffer { bytes }
          };
        }
      }
      38..=69 => {
        if cfg.original_leaves {
          let (name, text) = rng.pick(&pool.originals).clone();
          return Spec::Original { text, name };
        }
      }
      70..=87 => {
        if cfg.sourcemap_leaves {
          let text = gen_text(rng, cfg.max_text, true);
          let map = if cfg.wild_maps && rng.chance(1, 2) {
            gen_wild_map(rng, &text, pool)
          } else {
            gen_consistent_map(rng, &text, pool, cfg.zero_width, true)
          };
          let text = if cfg.wild_maps && !cfg.ascii && rng.chance(1, 3) {
            // multi-byte text under a map made for an ASCII text
            gen_text(rng, cfg.max_text, false)
          } else {
            text
          };
          return Spec::SourceMap {
            text,
            name: format!("sm{}.js", pool.counter),
            map,
            original: None,
            inner: None,
            remove: false,
          };
        }
      }
      88..=93 => {
        if cfg.custom_leaves {
          let text = gen_text(rng, cfg.max_text, cfg.ascii);
          let map = rng.chance(2, 3).then(|| {
            if cfg.wild_maps && rng.chance(1, 2) {
              gen_wild_map(rng, &text, pool)
            } else {
              gen_consistent_map(rng, &text, pool, cfg.zero_width, true)
            }
          });
          let pieces = split_pieces(rng, &text);
          return Spec::Custom {
            pieces,
            map,
            use_rope: rng.chance(2, 3),
          };
        }
      }
      _ => {
        if cfg.combined_leaves {
          return gen_combined(rng, cfg, pool);
        }
      }
    }
  }
}

pub fn split_pieces(rng: &mut Rng, text: &str) -> Vec<String> {
  let b = boundaries(text);
  let mut cuts: Vec<usize> = (0..rng.below(4)).map(|_| *rng.pick(&b)).collect();
  cuts.push(0);
  cuts.push(text.len());
  cuts.sort();
  let mut pieces: Vec<String> = cuts
    .windows(2)
    .map(|w| text[w[0]..w[1]].to_string())
    .collect();
  // an empty piece now and then (from_iter drops it)
  if rng.chance(1, 4) {
    pieces.insert(rng.below(pieces.len() + 1), String::new());
  }
  pieces
}

/// SourceMapSource with an inner map. The outer map points (partly) into the
/// source named like the SourceMapSource; the inner map maps that original
/// text further.
pub fn gen_combined(rng: &mut Rng, cfg: &GenCfg, pool: &mut Pool) -> Spec {
  let text = gen_text(rng, cfg.max_text, true);
  let original_text = gen_text(rng, cfg.max_text, true);
  pool.counter += 1;
  let name = format!("mid{}.js", pool.counter);
  // outer map: sources = [maybe others..., name]
  let mut outer = gen_consistent_map(rng, &text, pool, false, false);
  // re-target: one source becomes the inner source name
  let inner_idx = rng.below(outer.sources.len()) as u32;
  outer.sources[inner_idx as usize] = name.clone();
  // with a sourceRoot on the outer map the SourceMapSource is named like the
  // resolved source (root applied), which is what the library compares with
  if rng.chance(1, 3) {
    outer.source_root = gen_source_root(rng);
  }
  let name = crate::model::attr::apply_source_root(outer.source_root.as_deref(), &name);
  let content_in_outer = rng.chance(1, 2);
  while outer.contents.len() <= inner_idx as usize {
    outer.contents.push(String::new());
  }
  outer.contents[inner_idx as usize] = if content_in_outer {
    original_text.clone()
  } else {
    String::new()
  };
  // make segments into the inner source point at real positions of original_text
  let olines = line_starts(&original_text);
  for s in outer.segs.iter_mut() {
    if let Some(o) = s.orig.as_mut() {
      if o.src == inner_idx {
        if olines.is_empty() {
          o.line = 1;
          o.col = 0;
        } else {
          let li = rng.below(olines.len());
          o.line = li as u32 + 1;
          o.col = rng.below(olines[li].1) as u32;
        }
      }
    }
  }
  let inner = if cfg.wild_maps && rng.chance(1, 3) {
    gen_wild_map(rng, &original_text, pool)
  } else {
    let mut m = gen_consistent_map(rng, &original_text, pool, false, false);
    if rng.chance(1, 4) {
      m.source_root = gen_source_root(rng);
    }
    m
  };
  let original = if content_in_outer && rng.chance(1, 2) {
    None
  } else {
    Some(original_text)
  };
  Spec::SourceMap {
    text,
    name,
    map: outer,
    original,
    inner: Some(inner),
    remove: rng.chance(1, 3),
  }
}

pub fn gen_tree(rng: &mut Rng, cfg: &GenCfg, pool: &mut Pool, depth: usize, under_replace: bool) -> Spec {
  if depth >= cfg.max_depth {
    return gen_leaf(rng, cfg, pool);
  }
  loop {
    let r = rng.below(100);
    match r {
      0..=29 => return gen_leaf(rng, cfg, pool),
      30..=61 => {
        let n = match rng.below(40) {
          0..=3 => 0,
          4..=7 => 1,
          // rarely a wide concatenation (index tables, offsets over many children)
          8 if depth <= 1 => rng.range(9, 24),
          _ => rng.range(2, cfg.max_width.max(2)),
        };
        let mut children: Vec<Spec> = Vec::with_capacity(n);
        for _ in 0..n {
          if !children.is_empty() && rng.chance(1, 8) {
            // the same module twice in one bundle: an earlier sibling again
            // (same files, names and contents; with instance sharing on, a
            // CachedSource among them is the same object / a clone sharing
            // its cache, see spec::share_cached_instances)
            let k = rng.below(children.len());
            children.push(children[k].clone());
          } else {
            children.push(gen_tree(rng, cfg, pool, depth + 1, under_replace));
          }
        }
        let how = *rng.pick(&[How::NewBoxed, How::NewBoxed, How::Add, How::NewTyped]);
        return Spec::Concat { children, how };
      }
      62..=84 => {
        if cfg.replace {
          let inner = gen_tree(rng, cfg, pool, depth + 1, true);
          let ops = gen_ops(rng, &inner.model_text(), cfg, pool);
          return Spec::Replace {
            inner: Box::new(inner),
            ops,
          };
        }
      }
      85..=94 => {
        if cfg.cached && (cfg.cached_under_replace || !under_replace) {
          return Spec::Cached {
            inner: Box::new(gen_tree(rng, cfg, pool, depth + 1, under_replace)),
          };
        }
      }
      _ => {
        if cfg.boxed {
          return Spec::Boxed {
            inner: Box::new(gen_tree(rng, cfg, pool, depth + 1, under_replace)),
          };
        }
      }
    }
  }
}

/// One random tree with a fresh pool.
pub fn gen_case(rng: &mut Rng, cfg: &GenCfg) -> Spec {
  let mut pool = new_pool(rng, cfg);
  if rng.chance(1, 40) {
    // rarely a deep, narrow tree
    let mut deep = cfg.clone();
    deep.max_depth = cfg.max_depth + rng.range(3, 6);
    deep.max_width = 2;
    deep.max_text = cfg.max_text.min(12);
    return gen_tree(rng, &deep, &mut pool, 0, false);
  }
  gen_tree(rng, cfg, &mut pool, 0, false)
}
