#![allow(dead_code)]
mod edit;
mod gen;
mod model;
mod obs;
mod props;
mod record;
mod rng;
mod sched;
mod shrink;
mod spec;
mod worker;

fn main() {
  let args: Vec<String> = std::env::args().collect();
  let code = match args.get(1).map(|s| s.as_str()) {
    Some("worker") => worker::run_worker(&args[2..]),
    Some("replay") => worker::run_replay(&args[2..]),
    Some("list") => {
      for p in props::all() {
        println!("{}", p.id);
      }
      0
    }
    _ => {
      eprintln!("usage: rsv worker|replay|list ...");
      2
    }
  };
  std::process::exit(code);
}
