fn main() {}
